#!/bin/bash
# Builds what can be built ahead of time from files on disk only, and warms the Go build cache
# (std with and without -race, the dicescript package with the verif tag).
set -e
cd "$(dirname "$0")"
export GOFLAGS=-mod=mod GOPROXY=off GOSUMDB=off GOTOOLCHAIN=local CGO_ENABLED=1
mkdir -p bin evidence replays
(cd sim && go build -o ../bin/simc ./cmd/simc)
(cd sim && go build -trimpath -tags verif -o /dev/null ./cmd/simcheck)
(cd sim && go build -trimpath -tags verif -race -o /dev/null ./cmd/simcheck)
echo setup ok
