#!/bin/bash
# trymutant.sh <dir with patch.diff and zz_demo_test.go> <check ids...>
# Confirms a seeded change on a scratch copy of /repo (compiles, baseline tests pass, the demonstration
# fails with it and passes without it) and runs the given checks against the copy.
set -u
SRC="$(cd "$1" && pwd)"; shift
export GOFLAGS=-mod=mod GOPROXY=off GOSUMDB=off GOTOOLCHAIN=local CGO_ENABLED=1
W="$(mktemp -d /tmp/trymut.XXXXXX)"
trap 'rm -rf "$W"' EXIT
mkdir -p "$W/clean" "$W/mut"
rsync -a --exclude .git /repo/ "$W/clean/"
rsync -a --exclude .git /repo/ "$W/mut/"
( cd "$W/mut" && patch -p1 -s < "$SRC/patch.diff" ) || { echo "PATCH DOES NOT APPLY"; exit 3; }
DEMO=$(ls "$SRC"/zz_demo*_test.go 2>/dev/null | head -1)
RACE=""; grep -qi "race" "$SRC/NOTES.md" 2>/dev/null && RACE="-race"
echo "== baseline tests with the change"
( cd "$W/mut" && go build ./... && go test -vet=off -count=1 . 2>&1 | tail -2 )
if [ -n "$DEMO" ]; then
  cp "$DEMO" "$W/mut/"; cp "$DEMO" "$W/clean/"
  echo "== demo WITH the change (expected to fail) $RACE"
  ( cd "$W/mut" && timeout 600 go test $RACE -vet=off -count=1 -run 'Demo|ZZ|Zz' . 2>&1 | tail -4 )
  echo "== demo WITHOUT the change (expected to pass) $RACE"
  ( cd "$W/clean" && timeout 600 go test $RACE -vet=off -count=1 -run 'Demo|ZZ|Zz' . 2>&1 | tail -2 )
  rm -f "$W/mut/$(basename "$DEMO")"
fi
for id in "$@"; do
  echo "== check $id against the change"
  ( cd /verif && VERIF_OUT="$W/out" VERIF_REPO="$W/mut" timeout 900 ./check "$id" 2>&1 | grep -a "^VIOLATION\|sig=\|^$id tier\|infrastructure" | cut -c1-220 | head -12 )
done
