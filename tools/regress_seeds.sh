#!/bin/bash
# regress_seeds.sh [seed-dir-name ...]
# Re-runs the quick tier of the property each kept seeded change breaks (and the extra checks named
# in its meta.json "also" field, if any) against a scratch copy of /repo with the change applied,
# and prints one line per seed: CAUGHT / MISSED / NOAPPLY. Evidence and replays go to a scratch
# directory (VERIF_OUT), never to /verif/evidence. Nothing is left under /tmp afterwards.
set -u
export GOFLAGS=-mod=mod GOPROXY=off GOSUMDB=off GOTOOLCHAIN=local CGO_ENABLED=1
cd /verif/seeded || exit 2
seeds=("$@")
[ ${#seeds[@]} -eq 0 ] && seeds=(*)
for s in "${seeds[@]}"; do
  [ -f "$s/patch.diff" ] || continue
  if python3 -c "import json,sys; sys.exit(0 if 'retired' in json.load(open('$s/meta.json')) else 1)"; then
    echo "RETIRED $s"; continue
  fi
  prop=$(python3 -c "import json,sys; print(json.load(open('$s/meta.json'))['breaks_property'].split()[0])")
  # a seed is run against the check that catches it today (first check id named in checks_run), falling
  # back to the property it breaks
  ids=$(python3 - "$s" "$prop" <<'PY'
import json,re,sys
m=json.load(open(sys.argv[1]+"/meta.json"))
ids=re.findall(r"\./check (C\d\d)", m.get("checks_run",""))
out=[]
for i in ids+[sys.argv[2]]:
    if i not in out: out.append(i)
print(" ".join(out[:2]))
PY
)
  W="$(mktemp -d /tmp/regress.XXXXXX)"
  mkdir -p "$W/mut"
  rsync -a --exclude .git /repo/ "$W/mut/"
  if ! ( cd "$W/mut" && patch -p1 -s --no-backup-if-mismatch < "/verif/seeded/$s/patch.diff" ) >/dev/null 2>&1; then
    echo "NOAPPLY $s (the patch no longer applies to /repo HEAD)"
    rm -rf "$W"; continue
  fi
  if ! ( cd "$W/mut" && go build ./... ) >/dev/null 2>&1; then
    echo "NOBUILD $s"; rm -rf "$W"; continue
  fi
  verdict=MISSED; how=""
  for id in $ids; do
    out=$( cd /verif && VERIF_OUT="$W/out" VERIF_REPO="$W/mut" timeout 1200 ./check "$id" 2>&1 )
    v=$(echo "$out" | grep -a "^  sig=" | sed 's/ seed=.*//' | sort -u | tr '\n' ' ' | cut -c1-160)
    if echo "$out" | grep -aq "^VIOLATION"; then verdict=CAUGHT; how="$id:$v"; break; fi
    if echo "$out" | grep -aq "^infrastructure"; then how="$id: exit 2 ($(echo "$out" | grep -a '^infrastructure' | head -1 | cut -c1-100))"; fi
  done
  echo "$verdict $s [$ids] $how"
  rm -rf "$W"
done
