#!/usr/bin/env python3
"""Regenerates /verif/MANIFEST.json from the table below (single source of truth)."""
import json, subprocess, os

V = os.path.dirname(os.path.dirname(os.path.abspath(__file__)))

ENGINE_SESSION = "session-sim"
ENGINE_SCHED = "sched-sim"

# id -> (built, level, technique, text, note, design_ref, engine)
CHECKS = {
 "C01": (True, "exploration", "deterministic simulation: seeded histories on one VM with abort/cancel/callback faults, worker-process crash isolation",
   "Seeded search over simulated host histories (commands, budgets, cancellation at a chosen tick, callback faults, observation bursts after every command, successful or not) on one long-lived VM; every escaped panic, fatal worker death (stack/heap), stuck IsRunning or API-contract breach is a violation with a replayable, minimised scenario. Sampling, not proof; inputs are what the generator, its mutators and an adversarial list produce.",
   "Trusts the Go runtime's panic/fatal reporting and the worker-isolation supervisor. Not decided: arbitrary byte strings as such.", "DESIGN.md §4 C01", ENGINE_SESSION),
}

NA = {
 "C03": "pure function of the input text under a fixed configuration: no schedule, clock, fault or history for a simulator to vary (DESIGN.md §2)",
 "C05": "a distributional statement about the map (n, 64-bit words) -> face; deciding it is statistics over a pure function, not a simulation target; the source-identity half is decided under C06",
 "C13": "escaping and template assembly are pure functions of the literal/template text",
 "C18": "the st callback is only the output channel of a pure parse of the st text; no fault, schedule or history enters it",
}
NOT_BUILT = "check not built yet in this commit (planned, see DESIGN.md §4); listed here so that it is not claimed"

def main():
    props = [json.loads(l)["id"] for l in open(os.path.join(V, "properties.jsonl"))]
    try:
        hooks = subprocess.check_output(["git", "-C", "/repo", "log", "--format=%H", "--grep=^verif:"], text=True).split()
    except Exception:
        hooks = []
    checks = []
    na = []
    for pid in props:
        if pid in CHECKS and CHECKS[pid][0]:
            _, level, tech, text, note, ref, eng = CHECKS[pid]
            checks.append({
                "property_id": pid,
                "quick_cmd": f"./check {pid} --tier quick",
                "thorough_cmd": f"./check {pid} --tier thorough",
                "evidence_file": f"/verif/evidence/{pid}.json",
                "replay_cmd_template": f"./check {pid} --replay {{path}}",
                "engine": eng,
                "level_claimed": {"category": level, "text": text, "design_ref": ref},
                "level_note": note,
                "technique": tech,
            })
        elif pid in NA:
            na.append({"property_id": pid, "reason": NA[pid]})
        else:
            na.append({"property_id": pid, "reason": NOT_BUILT})
    m = {
        "version": 1,
        "setup_cmd": "./setup.sh",
        "hooks": {
            "guard": "verif",
            "enable": "go build -tags verif (the check script builds the simulator against a scratch copy of /repo's working tree with this tag)",
            "baseline_off_cmd": "cd /repo && GOFLAGS=-mod=mod GOPROXY=off GOSUMDB=off go test -json -vet=off -count=1 -timeout 25m ./...",
            "source_commits": hooks,
            "add_only": True,
        },
        "engines": [
            {"name": ENGINE_SESSION, "path": "/verif/sim", "serves_properties": [p for p in props if p in CHECKS and CHECKS[p][0] and CHECKS[p][6] == ENGINE_SESSION],
             "kind_free_text": "single-threaded deterministic simulation of host sessions: seeded scenario generator, simulated clock (instruction + die ticks), dice ledger/forcing, simulated host callbacks and disk, supervisor + worker OS processes, ddmin over explicit scenario files"},
            {"name": ENGINE_SCHED, "path": "/verif/sim", "serves_properties": [p for p in props if p in CHECKS and CHECKS[p][0] and CHECKS[p][6] == ENGINE_SCHED],
             "kind_free_text": "seeded cooperative scheduler over real goroutines parked on raw-syscall pipes (invisible to the race detector), yield points from tagged hooks and AST instrumentation, -race build, porcupine for recorded histories"},
        ],
        "checks": checks,
        "not_applicable": na,
        "notes": "All checks honour VERIF_SEED and VERIF_TIER. Exit 0 held / 1 violation (VIOLATION line) / 2 infrastructure trouble. Known findings: /verif/known_findings.jsonl.",
    }
    json.dump(m, open(os.path.join(V, "MANIFEST.json"), "w"), indent=1, ensure_ascii=False)
    print("wrote MANIFEST.json:", len(checks), "checks,", len(na), "not applicable")

main()
