#!/usr/bin/env python3
"""Regenerates /verif/MANIFEST.json from the table below (single source of truth)."""
import json, subprocess, os

V = os.path.dirname(os.path.dirname(os.path.abspath(__file__)))

ENGINE_SESSION = "session-sim"
ENGINE_SCHED = "sched-sim"

# id -> (built, level, technique, text, note, design_ref, engine)
CHECKS = {
 "C01": (True, "exploration", "deterministic simulation: seeded histories on one VM with abort/cancel/callback faults, worker-process crash isolation",
   "Seeded search over simulated host histories (commands, budgets, cancellation at a chosen tick, callback faults, observation bursts after every command, successful or not) on one long-lived VM; every escaped panic, fatal worker death (stack/heap), stuck IsRunning or API-contract breach is a violation with a replayable, minimised scenario. Sampling, not proof; inputs are what the generator, its mutators and an adversarial list produce.",
   "Trusts the Go runtime's panic/fatal reporting and the worker-isolation supervisor. Not decided: arbitrary byte strings as such.", "DESIGN.md §4 C01", ENGINE_SESSION),
 "C11": (True, "exploration", "deterministic simulation: seeded cooperative scheduler over real goroutines (TSan-blind hand-off) + race detector + twin run alone vs interleaved",
   "2-4 goroutines each own a VM and run generated programs; a seeded scheduler (uniform / PCT-like / run-to-conflict) decides every interleaving at instruction, die and language-write/read yield points, in a -race build whose hand-off pipes carry no race annotations, so real races are still reported. Oracles: no race report with a dicescript frame; each seeded task's outcomes equal its isolated run; error texts in the task's language. Schedules are explicit in replay files. Sampling of interleavings, not enumeration.",
   "Preemption happens only at yield points (VM instruction boundaries, Roll calls, Parse after the language write, error formatter before the language read). ThreadSanitizer misses are misses, never false alarms.", "DESIGN.md §4 C11, §3.6", ENGINE_SCHED),
 "C12": (True, "exploration", "deterministic simulation: exhaustive+random sequential histories vs a Go map; seeded schedules over AST-instrumented valuemap.go with porcupine linearizability checking and the race detector",
   "Sequential: every operation sequence up to length 4 (thorough 5) over two keys, plus random and shape-directed longer ones, compared operation by operation with a Go map and with the script-visible dict observers. Concurrent: random histories of 2-4 goroutines on valuemap.go instrumented with a preemption point before every statement; recorded invoke/return histories are checked with porcupine against a sequential map (Range as per-key reads within its interval, Length bounded while writers run, both exact once quiescent); TSan on. Deadlock (lock never released) is detected by the scheduler.",
   "Statement-level interleavings of valuemap.go; Go atomics sequentially consistent. Porcupine timeouts are counted inconclusive.", "DESIGN.md §4 C12, §3.5", ENGINE_SCHED),
 "C19": (True, "exploration", "deterministic simulation: seeded schedules of VMs with different error languages; twin run alone vs interleaved",
   "Goroutines with error languages 0/1/2 evaluate mostly rejected inputs under the seeded scheduler with preemption points between the language write and read; each error text must be purely in its VM's language and equal the text the same input gives alone. Line/column/quoted-line/caret arithmetic is monitored on the rejected inputs that occur, not claimed as covered.",
   "Decides the 'a VM's choice never changes another VM's messages' clause and single-language purity; geometry is monitored only on generated inputs.", "DESIGN.md §4 C19", ENGINE_SCHED),
 "C09": (True, "fault_enumeration", "deterministic simulation: crash/restart at every statement boundary with only JSON + generator bytes surviving; twin run crashed vs uncrashed",
   "A simulated host snapshots {variables as JSON, generator state} after every statement; inside each generated session EVERY crash point is enumerated (plus the lost-write fault: an older snapshot survives), a fresh VM is restored from the durable bytes and the remaining statements are compared field by field with the run that never crashed; every snapshot is also checked for structural round trip and for error-on-unrepresentable (cycles, non-finite floats).",
   "Sessions come from the generator (alias-free by skip-and-count: JSON cannot carry aliasing). The operation counter is not compared (cached and lazily compiled bodies differ by one halt instruction).", "DESIGN.md §4 C09", ENGINE_SESSION),
 "C10": (True, "fault_enumeration", "deterministic simulation: stored-byte fault injection (torn/short writes, bit flips, stale schema, garbage) on real snapshots; decoded values driven through an operation battery",
   "Documents written by real sessions are damaged the way disks and version skew damage them; for documents up to 160 bytes every truncation length and every single-bit flip is enumerated, larger ones are sampled, plus stale-schema faults on the JSON tree and garbage sectors. Each document must be rejected or decode to values on which printing, repr, truthiness, equality, re-serialisation and a battery of scripts are crash-free (worker isolation makes fatal errors observable).",
   "The battery is a fixed list of 8 direct operations and 42 scripts (a seeded third per value shape, once per distinct shape per run). 'VM internal error' results are errors, not crashes.", "DESIGN.md §4 C10", ENGINE_SESSION),
 "C06": (True, "exploration", "deterministic simulation: twin worlds (quiet vs interfered), dice ledger with source identity, resume from captured generator state at every command boundary",
   "The same seeded session runs in a quiet world, in noisy worlds (other seeded/unseeded VMs, direct draws on and reseeding of both package-level generators = clock jump, observation bursts) and resumed at every command boundary from GetCurSeed() into a fresh context; all outcomes incl. detail text and the 16 generator bytes must agree; the dice ledger (Roll hook) shows that every die of the seeded context came from its own source and that no package-level generator advanced.",
   "Dict rendering order is owned by the sorted-Range seam. Sessions are generated (all dice families, sub-VM paths, random array methods).", "DESIGN.md §4 C06", ENGINE_SESSION),
 "C07": (True, "fault_enumeration", "deterministic simulation: simulated clock (instruction + die ticks) as work meter and watchdog; abort point swept over every budget value",
   "Work is measured in ticks of the simulated clock, so 'bounded work' is a deterministic count and a hang is a replayable event. For each generated program every OpCountLimit k <= min(N+1,400) is tried (error or the full outcome, within 16k+4096 ticks), the fault-free counter must cover all instructions and dice, adversarial programs run under budgets {small, 30000} x normal/min/max mode, ParseExprLimit is swept, and scaled program families with values known by construction are taken across each built-in capacity (known value or error, never a truncated program).",
   "The tick bound constant is the check's. Capacity families are generator-driven.", "DESIGN.md §4 C07", ENGINE_SESSION),
 "C04": (True, "exploration", "deterministic simulation: simulator-controlled die source (seeded stream / forced faces / min-max mode) with a dice ledger checked against a rulebook",
   "Every die passes through the Roll hook: the ledger records sides, mode, face and source, and in forcing runs the simulator chooses the faces (all-low, all-high, alternating, explode r rounds then stop at exactly the add line, uniform), which makes exploding rounds, keep-boundary ties and threshold-equal dice certain instead of rare. A rulebook written from the guide recomputes each family's total from the drawn faces; draws per rule, face legality, annotation value, dice listed in the text, rejection of illegal tuples with zero draws, and source identity are checked, through the Roll* functions and through VM syntax.",
   "The rulebook is the trusted reference (guide wording). Parameters come from a boundary-biased grid plus random large values.", "DESIGN.md §4 C04", ENGINE_SESSION),
 "C15": (True, "exploration", "deterministic simulation: simulator-controlled die source; min/max-mode runs vs real streams and forced extreme faces",
   "For sums of non-exploding dice terms times non-negative constants: min-mode and max-mode draw zero dice from any generator (ledger + generator bytes), every result under 6 real streams and under forced face vectors (all lowest, all highest, alternating, CoC tens dice at 0) lies within [min-mode, max-mode], and for plain XdY terms the forced extreme faces reproduce the bounds exactly. Each term is checked alone first so that a violation names the family that causes it.",
   "Monotone expressions only (as the property states).", "DESIGN.md §4 C15", ENGINE_SESSION),
 "C02": (True, "exploration", "deterministic simulation: histories on one VM incl. failed, budget-aborted and cancelled evaluations; twin run used VM vs fresh VM with copied state",
   "Decides the history clause only ('sequences of evaluations on one VM, including after failed ones'): before every command of a simulated session the VM's variables are deep-copied and its generator captured, and the command is replayed on a fresh VM given exactly that; any difference in outcome, variables, op count or cancellation point is state leaking from the VM's past.",
   "NOT decided: whether a single evaluation computes the value the language definition prescribes (needs an independent reference interpreter = differential testing, a different technique).", "DESIGN.md §4 C02", ENGINE_SESSION),
 "C17": (True, "exploration", "deterministic simulation: host callbacks as seams; twin run with/without inert extensions; exactly-once over the handler invocation log; handler fault injection",
   "The simulated host implements every extension point. Twin sessions with and without inert extensions (never-matching regex customs, stream parsers that read ahead and decline, pass-through load/store hooks, identity detail rewriters) must agree in every outcome. For an acting operator the invocation log is checked against the executed custom-dice instructions (exactly once), the groups against the source, the returned value for use by copy, and injected handler faults (error, nil, stream parser error) must surface as errors.",
   "Callback behaviours stay within the documented contracts.", "DESIGN.md §4 C17", ENGINE_SESSION),
 "C08": (True, "exploration", "deterministic simulation: branch outcomes forced by the simulator at every conditional jump (buggify) with VM-level invariant monitors at every instruction",
   "Run-time truth of a branch condition is nondeterminism the simulator owns: the step hook overwrites the condition before each jne/je/je.dup according to decision vectors (natural, random, and all truthy/falsy vectors up to a length bound), so untaken branches and nested bodies of functions/computed values are executed; monitors check operand presence, jump patching and bounds, block/hole balance per instruction, roll/annotation state, unknown opcodes and internal-error results. Paths are sampled, not all enumerated (a static verifier would be a different technique).",
   "The monitor's operand table is written from the VM's dispatch loop. Code that is malformed but structurally balanced (e.g. instructions left by an abandoned alternative that only change the value) is not detectable by these invariants.", "DESIGN.md §4 C08", ENGINE_SESSION),
 "C14": (True, "exploration", "deterministic simulation: observation events injected at arbitrary points of a session (twin run); dice ledger segmented per instruction against annotations",
   "Decides: observing is idempotent and changes nothing (twin sessions with/without bursts of read-only API calls after each command, incl. after Parse and after failed runs); each dice annotation's value equals the rulebook total of the faces the ledger recorded while that instruction ran (real streams and forced faces). Input-driven and stated as such: for generated + - * ( ) arithmetic over dice terms with blanks, tabs, line breaks and multi-byte identifiers, the process text with its [..] groups removed evaluates to the reported result.",
   "The 'text is the source with rolls spliced in' clause is only sampled on generated arithmetic.", "DESIGN.md §4 C14", ENGINE_SESSION),
 "C16": (True, "exploration", "deterministic simulation: histories on one VM (macro / st line / failing input, then macro-free probe) with instruction-level observation",
   "Decides the history clauses: a macro or an st-flag push inside one input never alters Context.Config (every flag, limit and callback compared after every command) and never changes what a later macro-free input compiles to or executes: no instruction of a family that is off, in the main listing or in nested bodies, under all family settings x DisableStmts/NDice/BitwiseOp.",
   "NOT claimed: that no spelling re-opens a feature; only generated spellings and identifier/number mixes are searched.", "DESIGN.md §4 C16", ENGINE_SESSION),
}

NA = {
 "C03": "pure function of the input text under a fixed configuration: no schedule, clock, fault or history for a simulator to vary (DESIGN.md §2)",
 "C05": "a distributional statement about the map (n, 64-bit words) -> face; deciding it is statistics over a pure function, not a simulation target; the source-identity half is decided under C06",
 "C13": "escaping and template assembly are pure functions of the literal/template text",
 "C18": "the st callback is only the output channel of a pure parse of the st text; no fault, schedule or history enters it",
}
NOT_BUILT = "check not built yet in this commit (planned, see DESIGN.md §4); listed here so that it is not claimed"

def main():
    props = [json.loads(l)["id"] for l in open(os.path.join(V, "properties.jsonl"))]
    try:
        hooks = subprocess.check_output(["git", "-C", "/repo", "log", "--format=%H", "--grep=^verif:"], text=True).split()
    except Exception:
        hooks = []
    checks = []
    na = []
    for pid in props:
        if pid in CHECKS and CHECKS[pid][0]:
            _, level, tech, text, note, ref, eng = CHECKS[pid]
            checks.append({
                "property_id": pid,
                "quick_cmd": f"./check {pid} --tier quick",
                "thorough_cmd": f"./check {pid} --tier thorough",
                "evidence_file": f"/verif/evidence/{pid}.json",
                "replay_cmd_template": f"./check {pid} --replay {{path}}",
                "engine": eng,
                "level_claimed": {"category": level, "text": text, "design_ref": ref},
                "level_note": note,
                "technique": tech,
            })
        elif pid in NA:
            na.append({"property_id": pid, "reason": NA[pid]})
        else:
            na.append({"property_id": pid, "reason": NOT_BUILT})
    m = {
        "version": 1,
        "setup_cmd": "./setup.sh",
        "hooks": {
            "guard": "verif",
            "enable": "go build -tags verif (the check script builds the simulator against a scratch copy of /repo's working tree with this tag)",
            "baseline_off_cmd": "cd /repo && GOFLAGS=-mod=mod GOPROXY=off GOSUMDB=off go test -json -vet=off -count=1 -timeout 25m ./...",
            "source_commits": hooks,
            "add_only": True,
        },
        "engines": [
            {"name": ENGINE_SESSION, "path": "/verif/sim", "serves_properties": [p for p in props if p in CHECKS and CHECKS[p][0] and CHECKS[p][6] == ENGINE_SESSION],
             "kind_free_text": "single-threaded deterministic simulation of host sessions: seeded scenario generator, simulated clock (instruction + die ticks), dice ledger/forcing, simulated host callbacks and disk, supervisor + worker OS processes, ddmin over explicit scenario files"},
            {"name": ENGINE_SCHED, "path": "/verif/sim", "serves_properties": [p for p in props if p in CHECKS and CHECKS[p][0] and CHECKS[p][6] == ENGINE_SCHED],
             "kind_free_text": "seeded cooperative scheduler over real goroutines parked on raw-syscall pipes (invisible to the race detector), yield points from tagged hooks and AST instrumentation, -race build, porcupine for recorded histories"},
        ],
        "checks": checks,
        "not_applicable": na,
        "notes": "All checks honour VERIF_SEED and VERIF_TIER. Exit 0 held / 1 violation (VIOLATION line) / 2 infrastructure trouble. Known findings: /verif/known_findings.jsonl.",
    }
    json.dump(m, open(os.path.join(V, "MANIFEST.json"), "w"), indent=1, ensure_ascii=False)
    print("wrote MANIFEST.json:", len(checks), "checks,", len(na), "not applicable")

main()
