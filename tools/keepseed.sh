#!/bin/bash
# keepseed.sh <worktree dir> <seed id> <property> <caught_by text> <needs text>
set -e
SRC="$1"; ID="$2"; PROP="$3"; CAUGHT="$4"; NEEDS="$5"
D=/verif/seeded/$ID
mkdir -p "$D"
cp "$SRC/patch.diff" "$D/patch.diff"
for f in "$SRC"/zz_demo*_test.go; do [ -f "$f" ] && cp "$f" "$D/"; done
[ -f "$SRC/NOTES.md" ] && cp "$SRC/NOTES.md" "$D/NOTES.md"
python3 - "$D" "$ID" "$PROP" "$CAUGHT" "$NEEDS" <<'PY'
import json,sys,subprocess
d,i,p,c,n=sys.argv[1:6]
head=subprocess.check_output(["git","-C","/repo","rev-parse","--short","HEAD"],text=True).strip()
json.dump({"id":i,"breaks_property":p,"needs_to_manifest":n,"written_by":"independent sub-agent given only the property text and a scratch worktree",
 "confirmed":"tools/trymutant.sh: patch applies to /repo@"+head+", package builds, 225 baseline tests pass with it, demonstration fails with it and passes without it",
 "checks_run":c},open(d+"/meta.json","w"),indent=1,ensure_ascii=False)
PY
echo kept $D
