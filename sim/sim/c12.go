package sim

import (
	"encoding/json"
	"fmt"
	"sort"
	"strings"
	"time"

	"github.com/anishathalye/porcupine"
	ds "github.com/sealdice/dicescript"
)

// C12 — ValueMap is a correct map, sequentially (against a Go map, including the script-visible
// observers of a dict wrapping it) and under concurrency (linearizability of recorded histories
// from the seeded scheduler on the AST-instrumented source, with the race detector on).

type MapOp struct {
	Op  string `json:"o"` // store load los lad del clear range len | rangemut (sequential only)
	Key string `json:"k,omitempty"`
	Val int    `json:"v,omitempty"`
	// rangemut: a Range whose callback performs Sub[i] at its i-th visit (re-entrant use of the same
	// map) and returns false at visit number Stop (0 = never)
	Sub  []MapOp `json:"sub,omitempty"`
	Stop int     `json:"stop,omitempty"`
}

type C12Scenario struct {
	Mode  string // seq | exhaustive | conc
	Setup []MapOp    `json:",omitempty"`
	Tasks [][]MapOp  `json:",omitempty"`
	Sched SchedSpec  `json:",omitempty"`
	ExLen int        `json:",omitempty"` // exhaustive: sequence length
	ExFrom, ExTo int `json:",omitempty"` // exhaustive: slice of the first-op index space
}

var c12Keys = []string{"a", "b", "c"}

// c12BigKeys: the key set of the sequential family with re-entrant iteration (maps large enough
// for size-dependent paths).
var c12BigKeys = []string{"k0", "k1", "k2", "k3", "k4", "k5", "k6", "k7", "k8", "k9", "k10", "k11", "k12", "k13"}

func c12BigOp(r *Rng, next *int, nested bool) MapOp {
	k := c12BigKeys[r.Intn(len(c12BigKeys))]
	switch r.Intn(16) {
	case 0, 1, 2, 3:
		*next++
		return MapOp{Op: "store", Key: k, Val: *next}
	case 4:
		return MapOp{Op: "load", Key: k}
	case 5:
		*next++
		return MapOp{Op: "los", Key: k, Val: *next}
	case 6:
		return MapOp{Op: "lad", Key: k}
	case 7, 8, 9:
		return MapOp{Op: "del", Key: k}
	case 10:
		if r.Chance(1, 6) {
			return MapOp{Op: "clear"}
		}
		return MapOp{Op: "load", Key: k}
	case 11:
		return MapOp{Op: "range"}
	case 12:
		return MapOp{Op: "len"}
	default:
		if nested {
			return MapOp{Op: "load", Key: k}
		}
		op := MapOp{Op: "rangemut"}
		for i := r.Intn(5); i > 0; i-- {
			if r.Chance(1, 3) {
				op.Sub = append(op.Sub, MapOp{Op: "load", Key: "zz_absent"})
			} else {
				op.Sub = append(op.Sub, c12BigOp(r, next, true))
			}
		}
		if r.Chance(1, 4) {
			op.Stop = r.Range(1, 4)
		}
		return op
	}
}

func c12RandOp(r *Rng, nkeys int, next *int) MapOp {
	k := c12Keys[r.Intn(nkeys)]
	switch r.Intn(13) {
	case 0, 1, 2:
		*next++
		return MapOp{Op: "store", Key: k, Val: *next}
	case 3, 4:
		return MapOp{Op: "load", Key: k}
	case 5, 6:
		*next++
		return MapOp{Op: "los", Key: k, Val: *next}
	case 7:
		return MapOp{Op: "lad", Key: k}
	case 8, 9:
		return MapOp{Op: "del", Key: k}
	case 10:
		if r.Chance(1, 3) {
			return MapOp{Op: "clear"}
		}
		return MapOp{Op: "load", Key: k}
	case 11:
		return MapOp{Op: "range"}
	default:
		return MapOp{Op: "len"}
	}
}

// c12ShapePrefix drives the map into the rarely reached internal shapes (promoted read map, nil
// entries, expunged entries, amended read map with misses pending) before random operations.
func c12ShapePrefix(r *Rng, next *int) []MapOp {
	st := func(k string) MapOp { *next++; return MapOp{Op: "store", Key: k, Val: *next} }
	promote := func() []MapOp {
		if r.Bool() {
			return []MapOp{{Op: "range"}}
		}
		return []MapOp{{Op: "load", Key: "zz"}, {Op: "load", Key: "zz"}, {Op: "load", Key: "zz"}, {Op: "load", Key: "zz"}}
	}
	k1, k2 := "a", "b"
	if r.Bool() {
		k1, k2 = "b", "c"
	}
	var ops []MapOp
	ops = append(ops, st(k1))
	if r.Bool() {
		ops = append(ops, st(k2))
	}
	ops = append(ops, promote()...)          // k1 now in the read map
	ops = append(ops, MapOp{Op: Pick(r, []string{"del", "lad"}), Key: k1}) // nil entry
	if r.Chance(2, 3) {
		ops = append(ops, st(Pick(r, []string{k2, "c"}))) // dirty rebuilt: k1 expunged
	}
	if r.Chance(2, 3) {
		if r.Bool() {
			ops = append(ops, st(k1)) // unexpunge
		} else {
			*next++
			ops = append(ops, MapOp{Op: "los", Key: k1, Val: *next})
		}
	}
	if r.Bool() {
		ops = append(ops, promote()...)
	}
	return ops
}

func c12Gen(seed uint64, tier string) any {
	r := NewRng(seed)
	next := 0
	sc := &C12Scenario{}
	// the first seeds of every batch carry the exhaustive family, cut into slices
	switch r.Intn(12) {
	case 10, 11:
		// larger maps, long histories, iteration whose callback uses the map
		sc.Mode = "seq"
		var ops []MapOp
		fill := r.Range(0, len(c12BigKeys))
		for i := 0; i < fill; i++ {
			next++
			ops = append(ops, MapOp{Op: "store", Key: c12BigKeys[i], Val: next})
		}
		if r.Bool() {
			ops = append(ops, MapOp{Op: "range"})
			if r.Bool() {
				// a promoted map most of whose entries are dead
				for i := 0; i < fill; i++ {
					if r.Chance(3, 4) {
						ops = append(ops, MapOp{Op: Pick(r, []string{"del", "del", "lad"}), Key: c12BigKeys[i]})
					}
				}
			}
		}
		for i := r.Range(5, 60); i > 0; i-- {
			ops = append(ops, c12BigOp(r, &next, false))
		}
		sc.Tasks = [][]MapOp{ops}
	case 0, 1, 2, 3:
		sc.Mode = "seq"
		n := r.Range(3, 40)
		nk := r.Range(1, 3)
		var ops []MapOp
		if r.Chance(1, 2) {
			ops = c12ShapePrefix(r, &next)
		}
		for i := 0; i < n; i++ {
			ops = append(ops, c12RandOp(r, nk, &next))
		}
		sc.Tasks = [][]MapOp{ops}
	case 4, 5, 6:
		// targeted: one key in a chosen internal state, every goroutine works on that key, plus one
		// that stores a brand-new key (rebuilds the dirty map) or iterates (promotes it)
		sc.Mode = "conc"
		k := Pick(r, []string{"a", "b"})
		other := "c"
		st := func(key string) MapOp { next++; return MapOp{Op: "store", Key: key, Val: next} }
		switch r.Intn(6) {
		case 0: // absent
		case 1: // only in the dirty map
			sc.Setup = []MapOp{st(k)}
		case 2: // live in the read map
			sc.Setup = []MapOp{st(k), {Op: "range"}}
		case 3: // nil entry in the read map
			sc.Setup = []MapOp{st(k), {Op: "range"}, {Op: "del", Key: k}}
		case 4: // expunged
			sc.Setup = []MapOp{st(k), {Op: "range"}, {Op: "del", Key: k}, st(other)}
		default: // read map amended, key live in both
			sc.Setup = []MapOp{st(k), {Op: "range"}, st(other)}
		}
		onKey := func() MapOp {
			switch r.Intn(7) {
			case 0, 1:
				next++
				return MapOp{Op: "los", Key: k, Val: next}
			case 2:
				return st(k)
			case 3:
				return MapOp{Op: "lad", Key: k}
			case 4:
				return MapOp{Op: "del", Key: k}
			default:
				return MapOp{Op: "load", Key: k}
			}
		}
		nt := r.Range(2, 3)
		for t := 0; t < nt; t++ {
			ops := []MapOp{onKey()}
			if r.Bool() {
				ops = append(ops, onKey())
			}
			sc.Tasks = append(sc.Tasks, ops)
		}
		switch r.Intn(4) {
		case 0:
			sc.Tasks = append(sc.Tasks, []MapOp{st(Pick(r, []string{"c", "b", "a"}))})
		case 1:
			sc.Tasks = append(sc.Tasks, []MapOp{{Op: Pick(r, []string{"range", "len"})}})
		case 2:
			sc.Tasks = append(sc.Tasks, []MapOp{{Op: "load", Key: "zz"}, {Op: "load", Key: "zz"}})
		}
		sc.Sched = SchedSpec{Strategy: r.Intn(2), Seed: r.U64()}
	default:
		sc.Mode = "conc"
		nk := r.Range(1, 3)
		ns := r.Intn(7)
		if r.Chance(1, 3) {
			sc.Setup = c12ShapePrefix(r, &next)
		}
		for i := 0; i < ns; i++ {
			sc.Setup = append(sc.Setup, c12RandOp(r, nk, &next))
		}
		nt := r.Range(2, 4)
		for t := 0; t < nt; t++ {
			n := r.Range(1, 5)
			ops := make([]MapOp, n)
			for i := range ops {
				ops[i] = c12RandOp(r, nk, &next)
			}
			sc.Tasks = append(sc.Tasks, ops)
		}
		sc.Sched = SchedSpec{Strategy: r.Intn(2), Seed: r.U64()}
	}
	return sc
}

// ---- sequential

type seqModel struct{ m map[string]int }

type opResult struct {
	Val   int
	Ok    bool
	Pairs map[string]int
	Dup   bool
	N     int
}

func valID(v *ds.VMValue) int {
	if v == nil {
		return -1
	}
	i, ok := v.ReadInt()
	if !ok {
		return -2
	}
	return int(i)
}

func applyReal(m *ds.ValueMap, op MapOp) opResult {
	switch op.Op {
	case "store":
		m.Store(op.Key, ds.NewIntVal(ds.IntType(op.Val)))
		return opResult{}
	case "load":
		v, ok := m.Load(op.Key)
		if !ok {
			return opResult{Val: 0, Ok: false}
		}
		return opResult{Val: valID(v), Ok: true}
	case "los":
		v, loaded := m.LoadOrStore(op.Key, ds.NewIntVal(ds.IntType(op.Val)))
		return opResult{Val: valID(v), Ok: loaded}
	case "lad":
		v, ok := m.LoadAndDelete(op.Key)
		if !ok {
			return opResult{Val: 0, Ok: false}
		}
		return opResult{Val: valID(v), Ok: true}
	case "del":
		m.Delete(op.Key)
		return opResult{}
	case "clear":
		m.Clear()
		return opResult{}
	case "range":
		res := opResult{Pairs: map[string]int{}}
		m.Range(func(k string, v *ds.VMValue) bool {
			if _, dup := res.Pairs[k]; dup {
				res.Dup = true
			}
			res.Pairs[k] = valID(v)
			return true
		})
		return res
	case "len":
		return opResult{N: m.Length()}
	}
	return opResult{}
}

func (s *seqModel) apply(op MapOp) opResult {
	switch op.Op {
	case "store":
		s.m[op.Key] = op.Val
		return opResult{}
	case "load":
		v, ok := s.m[op.Key]
		return opResult{Val: v, Ok: ok}
	case "los":
		if v, ok := s.m[op.Key]; ok {
			return opResult{Val: v, Ok: true}
		}
		s.m[op.Key] = op.Val
		return opResult{Val: op.Val, Ok: false}
	case "lad":
		v, ok := s.m[op.Key]
		delete(s.m, op.Key)
		return opResult{Val: v, Ok: ok}
	case "del":
		delete(s.m, op.Key)
		return opResult{}
	case "clear":
		s.m = map[string]int{}
		return opResult{}
	case "range":
		p := map[string]int{}
		for k, v := range s.m {
			p[k] = v
		}
		return opResult{Pairs: p}
	case "len":
		return opResult{N: len(s.m)}
	}
	return opResult{}
}

// applyRangeMut runs a Range whose callback uses the same map. What an ordinary map promises for
// that: every visited pair is a mapping the key had at some point during the iteration; a key that is live
// during the whole iteration and not written by the callback is visited exactly once (unless the
// callback stopped the iteration); every operation inside the callback, and the contents afterwards,
// are those of the map with the callback's writes applied.
func applyRangeMut(m *ds.ValueMap, model *seqModel, op MapOp) string {
	atStart := map[string]int{}
	for k, v := range model.m {
		atStart[k] = v
	}
	touched := map[string]bool{}
	visits := map[string]int{}
	// held[k]: the values k has had since the iteration began (an iteration over a map that is being
	// written may show any of them, never anything else)
	held := map[string]map[int]bool{}
	note := func() {
		for k, v := range model.m {
			if held[k] == nil {
				held[k] = map[int]bool{}
			}
			held[k][v] = true
		}
	}
	note()
	why := ""
	n := 0
	stopped := false
	m.Range(func(k string, v *ds.VMValue) bool {
		n++
		visits[k]++
		if !held[k][valID(v)] {
			if why == "" {
				why = fmt.Sprintf("visit %d yields %s=%d, a mapping the key never had during this iteration (now: %v)", n, k, valID(v), model.m)
			}
		}
		if n-1 < len(op.Sub) {
			sub := op.Sub[n-1]
			switch sub.Op {
			case "store", "los", "lad", "del":
				touched[sub.Key] = true
			case "clear":
				for k2 := range model.m {
					touched[k2] = true
				}
				for k2 := range atStart {
					touched[k2] = true
				}
			}
			a := applyReal(m, sub)
			b := model.apply(sub)
			note()
			if !sameResult(sub, a, b) && why == "" {
				why = fmt.Sprintf("inside the callback (visit %d) %s returned %+v, a map returns %+v", n, fmtOps([]MapOp{sub}), a, b)
			}
		}
		if op.Stop > 0 && n >= op.Stop {
			stopped = true
			return false
		}
		return true
	})
	if why != "" {
		return why
	}
	for k, c := range visits {
		if c > 1 && !touched[k] {
			return fmt.Sprintf("key %s visited %d times", k, c)
		}
	}
	if !stopped {
		for k := range atStart {
			if !touched[k] && visits[k] != 1 {
				return fmt.Sprintf("key %s was live during the whole iteration and not written by the callback, visited %d times", k, visits[k])
			}
		}
	}
	return ""
}

func sameResult(op MapOp, a, b opResult) bool {
	switch op.Op {
	case "range":
		if a.Dup || b.Dup || len(a.Pairs) != len(b.Pairs) {
			return false
		}
		for k, v := range a.Pairs {
			if w, ok := b.Pairs[k]; !ok || w != v {
				return false
			}
		}
		return true
	case "len":
		return a.N == b.N
	default:
		return a.Val == b.Val && a.Ok == b.Ok
	}
}

func fmtOps(ops []MapOp) string {
	var parts []string
	for _, o := range ops {
		switch o.Op {
		case "store", "los":
			parts = append(parts, fmt.Sprintf("%s(%s,%d)", o.Op, o.Key, o.Val))
		case "clear", "range", "len":
			parts = append(parts, o.Op)
		case "rangemut":
			parts = append(parts, fmt.Sprintf("range{callback: %s; stop at visit %d}", fmtOps(o.Sub), o.Stop))
		default:
			parts = append(parts, fmt.Sprintf("%s(%s)", o.Op, o.Key))
		}
	}
	return strings.Join(parts, " ")
}

// observersOK compares the script-visible observers of a dict wrapping the map with the model.
func observersOK(m *ds.ValueMap, model map[string]int) (string, string) {
	d := ds.NewDictVal(m).V()
	if d.AsBool() != (len(model) != 0) {
		return "dict-truthiness", fmt.Sprintf("dict with %d live keys has truthiness %v", len(model), d.AsBool())
	}
	ctx := ds.NewVM()
	if n := int(d.Length(ctx)); n != len(model) {
		return "dict-length", fmt.Sprintf("dict len() = %d with %d live keys", n, len(model))
	}
	// a freshly built dict with the same content must be equal, one with a key more must not
	fresh := &ds.ValueMap{}
	keys := make([]string, 0, len(model))
	for k := range model {
		keys = append(keys, k)
	}
	sort.Strings(keys)
	for _, k := range keys {
		fresh.Store(k, ds.NewIntVal(ds.IntType(model[k])))
	}
	fd := ds.NewDictVal(fresh).V()
	if !ds.ValueEqual(d, fd, true) || !ds.ValueEqual(fd, d, true) {
		return "dict-equality", fmt.Sprintf("dict is not == a fresh dict with the same %d pairs", len(model))
	}
	more := &ds.ValueMap{}
	for _, k := range keys {
		more.Store(k, ds.NewIntVal(ds.IntType(model[k])))
	}
	more.Store("extra-key", ds.NewIntVal(1))
	md := ds.NewDictVal(more).V()
	if ds.ValueEqual(d, md, true) || ds.ValueEqual(md, d, true) {
		return "dict-equality", fmt.Sprintf("dict with %d pairs == a dict with one more key", len(model))
	}
	return "", ""
}

func shapeKey(s ds.VerifMapShape) string {
	b := func(x bool) int {
		if x {
			return 1
		}
		return 0
	}
	c := func(n int) int {
		if n > 2 {
			return 2
		}
		return n
	}
	return fmt.Sprintf("am%d dn%d live%d nil%d exp%d", b(s.Amended), b(s.DirtyNil), c(s.Live), c(s.NilEnt), c(s.Expunged))
}

// runSeq executes one sequence against the real map and the model. Returns the first mismatch.
func runSeq(ops []MapOp, res *RunResult, observers bool) (sig, msg string) {
	spins := 0
	ds.VerifYieldHook = func(site int) {
		if site == ds.VerifSiteBlocked {
			spins++
			if spins > 1000 {
				panic(cancelSentinel{})
			}
		}
	}
	defer func() { ds.VerifYieldHook = nil }()
	_, dead, _, _, _ := Guard(func() { sig, msg = runSeq1(ops, res, observers) })
	if dead {
		return "seq-deadlock", fmt.Sprintf("a sequential operation waits forever for the map's own mutex: [%s]", fmtOps(ops))
	}
	return sig, msg
}

func runSeq1(ops []MapOp, res *RunResult, observers bool) (sig, msg string) {
	m := &ds.ValueMap{}
	model := &seqModel{m: map[string]int{}}
	for i, op := range ops {
		if op.Op == "rangemut" {
			if why := applyRangeMut(m, model, op); why != "" {
				return "seq-mismatch:range-reentrant", fmt.Sprintf("after [%s], %s: %s", fmtOps(ops[:i]), fmtOps(ops[i:i+1]), why)
			}
			if res != nil {
				res.Fault("reentrant_range")
			}
			continue
		}
		a := applyReal(m, op)
		b := model.apply(op)
		if !sameResult(op, a, b) {
			return "seq-mismatch:" + op.Op, fmt.Sprintf("after [%s], %s returned %+v, a map returns %+v", fmtOps(ops[:i]), fmtOps(ops[i:i+1]), a, b)
		}
		sh := m.VerifShape()
		if res != nil {
			res.State(HashStr(shapeKey(sh)))
			if sh.Expunged > 0 {
				res.Probe("expunged_entry_present")
			}
			if sh.NilEnt > 0 {
				res.Probe("nil_entry_in_read")
			}
			if sh.Amended {
				res.Probe("read_amended")
			}
		}
		// the observers iterate the map and thereby change its internal shape: only after the last
		// operation (every prefix is a sequence of its own in the exhaustive family)
		if observers && i == len(ops)-1 {
			if s, why := observersOK(m, model.m); s != "" {
				return "seq-mismatch:" + s, fmt.Sprintf("after [%s]: %s", fmtOps(ops[:i+1]), why)
			}
		}
	}
	return "", ""
}

var exOps = func() []MapOp {
	var ops []MapOp
	for _, k := range []string{"a", "b"} {
		ops = append(ops, MapOp{Op: "store", Key: k}, MapOp{Op: "load", Key: k}, MapOp{Op: "los", Key: k}, MapOp{Op: "lad", Key: k}, MapOp{Op: "del", Key: k})
	}
	return append(ops, MapOp{Op: "clear"}, MapOp{Op: "range"}, MapOp{Op: "len"})
}()

// runExhaustive enumerates every sequence of length n over two keys whose first op index lies in [from,to).
func runExhaustive(maxLen, from, to int, res *RunResult) (count int, sig, msg string) {
	for n := 1; n <= maxLen; n++ {
		c, s, m := runExhaustiveLen(n, from, to, res)
		count += c
		if s != "" {
			return count, s, m
		}
	}
	return count, "", ""
}

func runExhaustiveLen(n, from, to int, res *RunResult) (count int, sig, msg string) {
	idx := make([]int, n)
	seq := make([]MapOp, n)
	for first := from; first < to && first < len(exOps); first++ {
		for i := range idx {
			idx[i] = 0
		}
		idx[0] = first
		for {
			for i, j := range idx {
				seq[i] = exOps[j]
				seq[i].Val = i + 1
			}
			count++
			if s, m := runSeq(seq, nil, true); s != "" {
				return count, s, m
			}
			// next
			p := n - 1
			for p >= 1 {
				idx[p]++
				if idx[p] < len(exOps) {
					break
				}
				idx[p] = 0
				p--
			}
			if p < 1 {
				break
			}
		}
	}
	return count, "", ""
}

// ---- concurrent

type histOp struct {
	Op     MapOp
	Call   int64
	Ret    int64
	Out    opResult
	Client int
}

var stampCounter int64

//go:norace
func stamp() int64 { stampCounter++; return stampCounter }

//go:norace
func resetStamp() { stampCounter = 0 }

type pIn struct {
	Op  string
	Key string
	Val int
}
type pOut struct {
	Val int
	Ok  bool
	N   int
	Pairs string
}

func modelKey(m map[string]int) string {
	keys := make([]string, 0, len(m))
	for k := range m {
		keys = append(keys, k)
	}
	sort.Strings(keys)
	var sb strings.Builder
	for _, k := range keys {
		fmt.Fprintf(&sb, "%s=%d;", k, m[k])
	}
	return sb.String()
}

func parseModelKey(s string) map[string]int {
	m := map[string]int{}
	for _, kv := range strings.Split(s, ";") {
		if kv == "" {
			continue
		}
		var k string
		var v int
		i := strings.IndexByte(kv, '=')
		k = kv[:i]
		fmt.Sscanf(kv[i+1:], "%d", &v)
		m[k] = v
	}
	return m
}

var c12Model = porcupine.Model{
	Init: func() interface{} { return "" },
	Step: func(state, input, output interface{}) (bool, interface{}) {
		st := parseModelKey(state.(string))
		in := input.(pIn)
		out := output.(pOut)
		sm := &seqModel{m: st}
		switch in.Op {
		case "rangeload":
			// one key's view inside a Range call: an independent read
			v, ok := st[in.Key]
			return ok == out.Ok && (!ok || v == out.Val), state
		case "range":
			r := sm.apply(MapOp{Op: "range"})
			return modelKey(r.Pairs) == out.Pairs, state
		case "len":
			return len(st) == out.N, state
		}
		r := sm.apply(MapOp{Op: in.Op, Key: in.Key, Val: in.Val})
		okk := r.Val == out.Val && r.Ok == out.Ok
		return okk, modelKey(sm.m)
	},
	Equal: func(a, b interface{}) bool { return a.(string) == b.(string) },
	DescribeOperation: func(input, output interface{}) string {
		return fmt.Sprintf("%+v -> %+v", input, output)
	},
}

func c12Exec(raw json.RawMessage, res *RunResult) {
	var sc C12Scenario
	if err := json.Unmarshal(raw, &sc); err != nil {
		res.Violate("harness-scenario", "bad scenario: %v", err)
		return
	}
	ds.VerifSortedRange = false // Range itself is under test here: never the sorted seam
	ds.VerifStepHook, ds.VerifRollHook = nil, nil
	dg := &Digest{}
	switch sc.Mode {
	case "exhaustive":
		n, sig, msg := runExhaustive(sc.ExLen, sc.ExFrom, sc.ExTo, res)
		res.Evals += n
		res.ProbeN("exhaustive_sequences", n)
		if sig != "" {
			res.Violate(sig, "%s", msg)
		}
		dg.Add("ex", fmt.Sprint(n), sig)
		res.Digest = dg.Hex()
		res.Nontrivial = true
		res.CaseKey = HashStr(fmt.Sprintf("ex%d-%d-%d", sc.ExLen, sc.ExFrom, sc.ExTo))
		return
	case "seq":
		ops := sc.Tasks[0]
		sig, msg := runSeq(ops, res, true)
		res.Evals++
		if sig != "" {
			res.Violate(sig, "%s", msg)
		}
		dg.Add("seq", fmtOps(ops), sig)
		res.Digest = dg.Hex()
		res.Nontrivial = len(ops) >= 3
		res.CaseKey = HashStr(fmtOps(ops))
		res.Ticks += int64(len(ops))
		return
	}

	// concurrent
	m := &ds.ValueMap{}
	setup := &seqModel{m: map[string]int{}}
	var hist []histOp
	resetStamp()
	for _, op := range sc.Setup {
		c := stamp()
		out := applyReal(m, op)
		hist = append(hist, histOp{Op: op, Call: c, Ret: stamp(), Out: out, Client: 0})
		setup.apply(op)
	}
	res.State(HashStr("setup " + shapeKey(m.VerifShape())))
	n := len(sc.Tasks)
	per := make([][]histOp, n)
	s := NewSched(sc.Sched, n)
	fns := make([]func(), n)
	for i := range sc.Tasks {
		i := i
		ops := sc.Tasks[i]
		fns[i] = func() {
			for _, op := range ops {
				c := stamp()
				out := applyReal(m, op)
				r := stamp()
				per[i] = append(per[i], histOp{Op: op, Call: c, Ret: r, Out: out, Client: i + 1})
			}
		}
	}
	ok := s.Run(fns)
	if !ok {
		res.Poisoned = true
		if s.Deadlock {
			res.Violate("conc:deadlock", "all runnable tasks kept spinning on the map's mutex: a lock is never released\n  setup=[%s]\n  tasks=%s", fmtOps(sc.Setup), fmtTasks(sc.Tasks))
		} else {
			res.Violate("conc:livelock", "step cap reached: some operation never returns\n  setup=[%s]\n  tasks=%s", fmtOps(sc.Setup), fmtTasks(sc.Tasks))
		}
		return
	}
	res.Evals++
	res.FaultN("preempt", s.Switches)
	res.Ticks += int64(s.Points)
	for site, c := range s.Sites {
		if site == ds.VerifSiteBlocked {
			res.ProbeN("spun_on_held_mutex", c)
		}
	}
	for _, h := range per {
		hist = append(hist, h...)
	}
	// quiescent reader: every key, Range, Length — ordinary atomic operations now
	for _, k := range c12Keys {
		c := stamp()
		out := applyReal(m, MapOp{Op: "load", Key: k})
		hist = append(hist, histOp{Op: MapOp{Op: "load", Key: k}, Call: c, Ret: stamp(), Out: out, Client: n + 1})
	}
	{
		c := stamp()
		out := applyReal(m, MapOp{Op: "range"})
		hist = append(hist, histOp{Op: MapOp{Op: "range"}, Call: c, Ret: stamp(), Out: out, Client: n + 1})
		if out.Dup {
			res.Violate("conc:range-duplicate", "quiescent Range visited a key twice")
		}
		c = stamp()
		out = applyReal(m, MapOp{Op: "len"})
		hist = append(hist, histOp{Op: MapOp{Op: "len"}, Call: c, Ret: stamp(), Out: out, Client: n + 1})
	}
	lastTaskRet := int64(0)
	for _, h := range per {
		for _, o := range h {
			if o.Ret > lastTaskRet {
				lastTaskRet = o.Ret
			}
		}
	}

	// porcupine history
	var pops []porcupine.Operation
	client := 100
	var lens []histOp
	for _, h := range hist {
		quiescent := h.Client == n+1 || h.Client == 0
		switch h.Op.Op {
		case "range":
			if h.Out.Dup {
				res.Violate("conc:range-duplicate", "Range visited a key twice\n  tasks=%s", fmtTasks(sc.Tasks))
			}
			if quiescent {
				pops = append(pops, porcupine.Operation{ClientId: h.Client, Input: pIn{Op: "range"}, Call: h.Call, Output: pOut{Pairs: modelKey(h.Out.Pairs)}, Return: h.Ret})
				continue
			}
			// sync.Map contract: one independent read per key somewhere inside the call's interval
			for _, k := range c12Keys {
				v, present := h.Out.Pairs[k]
				client++
				pops = append(pops, porcupine.Operation{ClientId: client, Input: pIn{Op: "rangeload", Key: k}, Call: h.Call, Output: pOut{Val: v, Ok: present}, Return: h.Ret})
			}
		case "len":
			if quiescent {
				pops = append(pops, porcupine.Operation{ClientId: h.Client, Input: pIn{Op: "len"}, Call: h.Call, Output: pOut{N: h.Out.N}, Return: h.Ret})
			} else {
				lens = append(lens, h)
			}
		default:
			pops = append(pops, porcupine.Operation{ClientId: h.Client, Input: pIn{Op: h.Op.Op, Key: h.Op.Key, Val: h.Op.Val}, Call: h.Call, Output: pOut{Val: h.Out.Val, Ok: h.Out.Ok}, Return: h.Ret})
		}
	}
	// Length overlapping writers is bounded from the history (sound, deliberately loose)
	for _, l := range lens {
		lo, hi := lengthBounds(hist, l)
		if l.Out.N < lo || l.Out.N > hi {
			res.Violate("conc:length-out-of-bounds", "Length returned %d, but the history allows only [%d,%d]\n  setup=[%s]\n  tasks=%s", l.Out.N, lo, hi, fmtOps(sc.Setup), fmtTasks(sc.Tasks))
		}
	}
	result := porcupine.CheckOperationsTimeout(c12Model, pops, 10*time.Second)
	switch result {
	case porcupine.Illegal:
		res.Violate("conc:not-linearizable", "history is not linearizable against a sequential map\n  setup=[%s]\n  tasks=%s\n  history:\n%s", fmtOps(sc.Setup), fmtTasks(sc.Tasks), fmtHist(hist))
	case porcupine.Unknown:
		res.Inconcl++
	}
	overlap := 0
	for i, a := range per {
		for j, b := range per {
			if i >= j {
				continue
			}
			for _, x := range a {
				for _, y := range b {
					if x.Call < y.Ret && y.Call < x.Ret {
						overlap++
					}
				}
			}
		}
	}
	res.ProbeN("overlapping_operation_pairs", overlap)
	res.State(HashStr("final " + shapeKey(m.VerifShape())))
	res.State(s.SwitchDigest())
	dg.Add("conc", fmtHist(hist))
	res.Digest = dg.Hex()
	res.Nontrivial = overlap > 0
	res.CaseKey = Mix(HashStr(fmtTasks(sc.Tasks)+fmtOps(sc.Setup)), s.SwitchDigest())
	if len(sc.Sched.Explicit) == 0 && len(s.Record) <= 20000 {
		sc.Sched.Explicit = s.Record
		res.AltScenario = MustJSON(&sc)
	}
}

// lengthBounds: at least the keys certainly present during the whole call, at most the keys possibly present.
func lengthBounds(hist []histOp, l histOp) (lo, hi int) {
	for _, k := range c12Keys {
		// possibly present: some store/los on k invoked before l returns
		possibly := false
		// certainly present: a store/los on k returned before l was invoked, and no del/lad/clear on k (or clear) invoked before l returned after that store's call
		certainly := false
		for _, h := range hist {
			if (h.Op.Op == "store" || h.Op.Op == "los") && h.Op.Key == k && h.Call < l.Ret {
				possibly = true
			}
		}
		for _, h := range hist {
			if (h.Op.Op == "store" || h.Op.Op == "los") && h.Op.Key == k && h.Ret < l.Call {
				killed := false
				for _, d := range hist {
					if ((d.Op.Op == "del" || d.Op.Op == "lad") && d.Op.Key == k || d.Op.Op == "clear") && d.Call < l.Ret && d.Ret > h.Call {
						killed = true
					}
				}
				if !killed {
					certainly = true
				}
			}
		}
		if possibly {
			hi++
		}
		if certainly {
			lo++
		}
	}
	return
}

func fmtTasks(ts [][]MapOp) string {
	var parts []string
	for i, t := range ts {
		parts = append(parts, fmt.Sprintf("T%d[%s]", i+1, fmtOps(t)))
	}
	return strings.Join(parts, " ")
}

func fmtHist(h []histOp) string {
	hs := append([]histOp(nil), h...)
	sort.Slice(hs, func(i, j int) bool { return hs[i].Call < hs[j].Call })
	var sb strings.Builder
	for _, o := range hs {
		out := ""
		switch o.Op.Op {
		case "range":
			out = modelKey(o.Out.Pairs)
		case "len":
			out = fmt.Sprint(o.Out.N)
		case "store", "del", "clear":
		default:
			out = fmt.Sprintf("%d,%v", o.Out.Val, o.Out.Ok)
		}
		fmt.Fprintf(&sb, "    c%d [%d,%d] %s -> %s\n", o.Client, o.Call, o.Ret, fmtOps([]MapOp{o.Op}), out)
	}
	return sb.String()
}

func c12Shrink(raw json.RawMessage) []json.RawMessage {
	var sc C12Scenario
	if json.Unmarshal(raw, &sc) != nil || sc.Mode == "exhaustive" {
		return nil
	}
	var out []json.RawMessage
	emit := func(f func(s *C12Scenario)) {
		var c C12Scenario
		json.Unmarshal(raw, &c)
		f(&c)
		out = append(out, MustJSON(&c))
	}
	if len(sc.Sched.Explicit) > 0 && sc.Mode == "conc" {
		// explicit schedules are tied to the operation lists; drop them when ops change
	}
	if len(sc.Setup) > 0 {
		emit(func(s *C12Scenario) { s.Setup = nil; s.Sched.Explicit = nil })
		for i := range sc.Setup {
			i := i
			emit(func(s *C12Scenario) {
				s.Setup = append(append([]MapOp{}, s.Setup[:i]...), s.Setup[i+1:]...)
				s.Sched.Explicit = nil
			})
		}
	}
	if len(sc.Tasks) > 2 {
		for i := range sc.Tasks {
			i := i
			emit(func(s *C12Scenario) {
				s.Tasks = append(append([][]MapOp{}, s.Tasks[:i]...), s.Tasks[i+1:]...)
				s.Sched.Explicit = nil
			})
		}
	}
	for i, t := range sc.Tasks {
		if sc.Mode == "seq" && len(t) > 4 {
			i := i
			h := len(t) / 2
			emit(func(s *C12Scenario) { s.Tasks[i] = s.Tasks[i][:h] })
			emit(func(s *C12Scenario) { s.Tasks[i] = s.Tasks[i][h:] })
		}
		if len(t) > 1 || sc.Mode == "seq" {
			for j := range t {
				i, j := i, j
				emit(func(s *C12Scenario) {
					s.Tasks[i] = append(append([]MapOp{}, s.Tasks[i][:j]...), s.Tasks[i][j+1:]...)
					s.Sched.Explicit = nil
				})
			}
		}
	}
	return out
}

func init() {
	genIdx := func(idx int, seed uint64, tier string) any {
		if idx < len(exOps) {
			n := 4
			if tier == "thorough" {
				n = 5
			}
			return &C12Scenario{Mode: "exhaustive", ExLen: n, ExFrom: idx, ExTo: idx + 1}
		}
		return c12Gen(seed, tier)
	}
	Register(&Check{
		ID: "C12", Level: "exploration", Race: true,
		QuickRuns: 100000, ThoroughRuns: 3000000,
		Gen: c12Gen, GenIdx: genIdx, Exec: c12Exec, Shrink: c12Shrink,
		Rule: "the sequential family also runs long histories on 14 keys with iteration whose callback uses the same map (store / delete / LoadOrStore / LoadAndDelete / Clear / Length / nested Range at given visits, early stop): every visited pair is a mapping the key had during the iteration, keys untouched by the callback are visited exactly once, every operation inside the callback and everything afterwards equals the model. three families. (1) exhaustive: every sequence of Store/Load/LoadOrStore/LoadAndDelete/Delete over keys a,b plus Clear/Range/Length up to a length bound (quick 4, thorough 5), each compared operation by operation with a Go map, including the script-visible observers (dict truthiness, len(), == in both directions against a fresh dict with the same / one more pair). (2) random sequential sequences of 3-40 operations over 1-3 keys, same oracles. (3) concurrent: 2-4 goroutines x 1-5 operations over <=3 keys with unique values, after a random sequential setup, on the AST-instrumented valuemap.go (a preemption point before every statement, mutex waits as yield loops) under the seeded scheduler with the race detector on; the recorded invoke/return history (stamped with a global event counter) is checked with porcupine against a sequential map; Range is entered as one independent read per key over the call's interval (the sync.Map contract) plus no-duplicate; Length overlapping writers is bounded from the history; a quiescent final reader (Load of every key, Range, Length) goes through the model atomically. distinct = distinct (operation lists, context-switch sequence); non-trivial = at least one pair of operations of different goroutines overlapped (concurrent) / at least 3 operations (sequential)",
		Real: []string{"valuemap.go (AST-instrumented scratch copy, logic unchanged), dict observers in types.go, under -race"},
		Stub: []string{"goroutine scheduling (decided by the simulator at every statement boundary of valuemap.go)"},
		Assumptions: []string{"Go atomics are sequentially consistent, so interleavings of statements are the behaviours the memory model allows for this file", "porcupine Unknown (10 s timeout) is counted inconclusive, never reported", "Length during concurrent writers is only bounded (sound, loose); exact once quiescent"},
	})
}
