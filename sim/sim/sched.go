package sim

import (
	"encoding/binary"
	"sync"
	"syscall"
	"unsafe"

	ds "github.com/sealdice/dicescript"
)

// Deterministic goroutine scheduler.
//
// Tasks are real goroutines but exactly one is runnable at any instant. A task that reaches a
// yield point writes to the scheduler's pipe and blocks reading its own pipe; the scheduler (the
// goroutine that called Run) draws the next task and writes to that task's pipe. The pipes are
// driven with raw syscall.Syscall(SYS_READ/SYS_WRITE): unlike channels, mutexes or atomics these
// carry no race-detector annotations, so ThreadSanitizer sees the tasks as unsynchronised
// goroutines although they are strictly serialised. One run therefore gives an interleaving that
// is a pure function of the decision list (replayable), and genuine happens-before race detection.
//
// Consequences: tasks share nothing with each other or with the scheduler except through the
// pipes; the "current task" cell is touched only in //go:norace functions; per-task results are
// read by the caller only after a real WaitGroup join.

// Decision is one scheduling decision: which task runs, for how many yield points, counting
// which kind of yield point.
type Decision struct {
	T int   `json:"t"` // task
	Q int32 `json:"q"` // yield points the task passes before it reports back
	M int8  `json:"m"` // 0: every site counts; 1: VM instruction sites pass free (only roll/language/statement sites count)
}

type SchedSpec struct {
	Strategy  int        `json:"strategy"` // 0 uniform, 1 PCT-like, 2 run-to-conflict
	Seed      uint64     `json:"seed"`
	Explicit  []Decision `json:"explicit,omitempty"` // replay: used instead of the seed while it lasts
	StepCap   int        `json:"step_cap,omitempty"`
}

type schedTask struct {
	id    int
	rfd   int // task reads its wake-ups here
	wfd   int
	quota int32
	mode  int8
	done  bool
}

type Sched struct {
	spec     SchedSpec
	tasks    []*schedTask
	ctlR     int
	ctlW     int
	cur      *schedTask // norace cell
	rng      *Rng
	Record   []Decision
	Switches int
	Points   int
	Sites    map[int]int
	Deadlock bool
	Capped   bool
	lastSite []int
	prio     []int
	changeAt map[int]bool
}

var activeSched *Sched

func rawWrite(fd int, b []byte) {
	for len(b) > 0 {
		n, _, e := syscall.Syscall(syscall.SYS_WRITE, uintptr(fd), uintptr(unsafe.Pointer(&b[0])), uintptr(len(b)))
		if e == syscall.EINTR {
			continue
		}
		if e != 0 {
			panic("sched: write: " + e.Error())
		}
		b = b[n:]
	}
}

func rawRead(fd int, b []byte) {
	for len(b) > 0 {
		n, _, e := syscall.Syscall(syscall.SYS_READ, uintptr(fd), uintptr(unsafe.Pointer(&b[0])), uintptr(len(b)))
		if e == syscall.EINTR {
			continue
		}
		if e != 0 {
			panic("sched: read: " + e.Error())
		}
		if n == 0 {
			panic("sched: pipe closed")
		}
		b = b[n:]
	}
}

//go:norace
func (s *Sched) setCur(t *schedTask) { s.cur = t }

//go:norace
func (s *Sched) getCur() *schedTask { return s.cur }

//go:norace
func getActiveSched() *Sched { return activeSched }

//go:norace
func setActiveSched(s *Sched) { activeSched = s }

// schedYield is installed as dicescript.VerifYieldHook.
//
//go:norace
func schedYield(site int) {
	s := getActiveSched()
	if s == nil {
		return
	}
	t := s.getCur()
	if t == nil {
		return
	}
	if site != ds.VerifSiteBlocked {
		if t.mode == 1 && site == ds.VerifSiteStep {
			return
		}
		if t.quota > 0 {
			t.quota--
			return
		}
	}
	var msg [5]byte
	msg[0] = 'Y'
	binary.LittleEndian.PutUint32(msg[1:], uint32(site))
	rawWrite(s.ctlW, msg[:])
	t.waitWake()
}

//go:norace
func (t *schedTask) waitWake() {
	var b [5]byte
	rawRead(t.rfd, b[:])
	t.quota = int32(binary.LittleEndian.Uint32(b[:4]))
	t.mode = int8(b[4])
}

func NewSched(spec SchedSpec, n int) *Sched {
	s := &Sched{spec: spec, rng: NewRng(spec.Seed), Sites: map[int]int{}}
	var fds [2]int
	if err := syscall.Pipe2(fds[:], syscall.O_CLOEXEC); err != nil {
		panic(err)
	}
	s.ctlR, s.ctlW = fds[0], fds[1]
	for i := 0; i < n; i++ {
		var p [2]int
		if err := syscall.Pipe2(p[:], syscall.O_CLOEXEC); err != nil {
			panic(err)
		}
		s.tasks = append(s.tasks, &schedTask{id: i, rfd: p[0], wfd: p[1]})
	}
	s.lastSite = make([]int, n)
	if s.spec.StepCap == 0 {
		s.spec.StepCap = 400000
	}
	if spec.Strategy == 1 {
		s.prio = make([]int, n)
		perm := s.rng.Perm(n)
		for i, p := range perm {
			s.prio[i] = p + 10
		}
		s.changeAt = map[int]bool{}
		d := s.rng.Range(1, 4)
		for i := 0; i < d; i++ {
			s.changeAt[s.rng.Range(1, 60)] = true
		}
	}
	return s
}

func (r *Rng) Perm(n int) []int {
	p := make([]int, n)
	for i := range p {
		p[i] = i
	}
	for i := n - 1; i > 0; i-- {
		j := r.Intn(i + 1)
		p[i], p[j] = p[j], p[i]
	}
	return p
}

func (s *Sched) close() {
	syscall.Close(s.ctlR)
	syscall.Close(s.ctlW)
	for _, t := range s.tasks {
		syscall.Close(t.rfd)
		syscall.Close(t.wfd)
	}
}

func (s *Sched) runnable() []int {
	var r []int
	for _, t := range s.tasks {
		if !t.done {
			r = append(r, t.id)
		}
	}
	return r
}

// decide picks the next task. prev is the task that just yielded (-1 at start or after a task ended).
func (s *Sched) decide(prev int, prevSite int) Decision {
	run := s.runnable()
	var d Decision
	if s.Points < len(s.spec.Explicit) {
		d = s.spec.Explicit[s.Points]
		ok := false
		for _, id := range run {
			if id == d.T {
				ok = true
			}
		}
		if !ok {
			d.T = run[0]
		}
	} else if len(s.spec.Explicit) > 0 {
		// replay list exhausted: continue deterministically, lowest runnable task to completion
		d = Decision{T: run[0], Q: 1 << 30, M: 0}
	} else {
		switch s.spec.Strategy {
		case 0: // uniform random choice, short random quanta
			d.T = run[s.rng.Intn(len(run))]
			switch s.rng.Intn(4) {
			case 0:
				d.Q = 0
			case 1:
				d.Q = int32(s.rng.Intn(4))
			case 2:
				d.Q = int32(s.rng.Intn(30))
			default:
				d.Q = int32(s.rng.Intn(200))
			}
		case 1: // PCT-like: highest priority runs; at d change points the running task drops to the bottom
			if prev >= 0 && s.changeAt[s.Points] {
				s.prio[prev] = -s.Points
			}
			best := run[0]
			for _, id := range run {
				if s.prio[id] > s.prio[best] {
					best = id
				}
			}
			d.T = best
			d.Q = int32(s.rng.Intn(40))
		default: // run-to-conflict: only roll / language / statement sites are scheduling points
			d.T = run[s.rng.Intn(len(run))]
			d.M = 1
			d.Q = int32(s.rng.Intn(3))
		}
	}
	// a task spinning on a held mutex must let somebody else run: whoever holds the lock is among
	// the others, so choose among them at random (also under PCT, where the spinner would otherwise
	// keep its priority and starve the holder)
	if prevSite == ds.VerifSiteBlocked && d.T == prev && len(run) > 1 {
		var others []int
		for _, id := range run {
			if id != prev {
				others = append(others, id)
			}
		}
		d.T = others[s.rng.Intn(len(others))]
	}
	return d
}

func (s *Sched) wake(d Decision) {
	t := s.tasks[d.T]
	s.setCur(t)
	var b [5]byte
	binary.LittleEndian.PutUint32(b[:4], uint32(d.Q))
	b[4] = byte(d.M)
	rawWrite(t.wfd, b[:])
}

// Run executes the task functions under the scheduler and returns when all have finished.
// It reports false if the run had to be abandoned (deadlock or step cap): the process must
// then be considered poisoned, parked goroutines cannot be recovered.
func (s *Sched) Run(fns []func()) bool {
	var wg sync.WaitGroup
	setActiveSched(s)
	ds.VerifYieldHook = schedYield
	for i, fn := range fns {
		t := s.tasks[i]
		fn := fn
		wg.Add(1)
		go func() {
			t.waitWake()
			fn()
			wg.Done()
			var msg [5]byte
			msg[0] = 'D'
			rawWrite(s.ctlW, msg[:])
		}()
	}
	live := len(fns)
	prev, prevSite := -1, 0
	blockedRounds := 0
	d := s.decide(prev, prevSite)
	s.Record = append(s.Record, d)
	s.Points++
	s.wake(d)
	last := d.T
	for live > 0 {
		var msg [5]byte
		rawRead(s.ctlR, msg[:])
		cur := s.getCur().id
		if msg[0] == 'D' {
			s.tasks[cur].done = true
			live--
			if live == 0 {
				break
			}
			prev, prevSite = -1, 0
		} else {
			site := int(binary.LittleEndian.Uint32(msg[1:]))
			s.Sites[site]++
			prev, prevSite = cur, site
			if site == ds.VerifSiteBlocked {
				blockedRounds++
			} else {
				blockedRounds = 0
			}
		}
		if blockedRounds > 2000 {
			s.Deadlock = true
			return false
		}
		if s.Points > s.spec.StepCap {
			s.Capped = true
			return false
		}
		d := s.decide(prev, prevSite)
		s.Record = append(s.Record, d)
		s.Points++
		if d.T != last {
			s.Switches++
			last = d.T
		}
		s.wake(d)
	}
	wg.Wait()
	s.setCur(nil)
	setActiveSched(nil)
	ds.VerifYieldHook = nil
	s.close()
	return true
}

// SwitchDigest hashes the sequence of context switches (the interleaving, by our measure).
func (s *Sched) SwitchDigest() uint64 {
	h := uint64(1469598103934665603)
	last := -1
	for i, d := range s.Record {
		if d.T != last {
			h = Mix(h, uint64(d.T+1), uint64(i))
			last = d.T
		}
	}
	return h
}
