// Package sim is the deterministic simulator for sealdice/dicescript.
//
// One integer decides everything: a run's seed feeds one splitmix64 stream from which the
// scenario (configuration, program texts, faults, schedule, forced dice, seeds handed to the
// code under test) is generated. Executing a scenario is a pure function of the scenario and
// the code. Logging never draws from the stream and never reads a clock.
package sim

import (
	"crypto/sha256"
	"encoding/binary"
	"encoding/hex"
	"encoding/json"
	"fmt"
	"hash/fnv"
	"sort"
	"strings"
)

// ---------------------------------------------------------------- PRNG

type Rng struct{ s uint64 }

func NewRng(seed uint64) *Rng { return &Rng{s: seed} }

func (r *Rng) U64() uint64 {
	r.s += 0x9E3779B97F4A7C15
	z := r.s
	z = (z ^ (z >> 30)) * 0xBF58476D1CE4E5B9
	z = (z ^ (z >> 27)) * 0x94D049BB133111EB
	return z ^ (z >> 31)
}

func (r *Rng) Intn(n int) int {
	if n <= 1 {
		return 0
	}
	return int(r.U64() % uint64(n))
}

// Range returns a value in [lo, hi].
func (r *Rng) Range(lo, hi int) int {
	if hi <= lo {
		return lo
	}
	return lo + r.Intn(hi-lo+1)
}

// Chance is true with probability num/den.
func (r *Rng) Chance(num, den int) bool { return r.Intn(den) < num }

func (r *Rng) Bool() bool { return r.U64()&1 == 1 }

func (r *Rng) Fork() *Rng { return NewRng(r.U64()) }

func Pick[T any](r *Rng, xs []T) T { return xs[r.Intn(len(xs))] }

// Mix combines integers into one seed.
func Mix(xs ...uint64) uint64 {
	h := uint64(0x243F6A8885A308D3)
	for _, x := range xs {
		h ^= x + 0x9E3779B97F4A7C15 + (h << 6) + (h >> 2)
		r := Rng{s: h}
		h = r.U64()
	}
	return h
}

func HashStr(s string) uint64 {
	h := fnv.New64a()
	h.Write([]byte(s))
	return h.Sum64()
}

// ---------------------------------------------------------------- digests

// Digest accumulates an event log into a hash; it proves that two executions were identical.
type Digest struct {
	h   [32]byte
	n   int
	Log []string // kept only when Keep is set
	Keep bool
}

func (d *Digest) Add(parts ...string) {
	line := strings.Join(parts, "\x1f")
	buf := make([]byte, 0, 32+8+len(line))
	buf = append(buf, d.h[:]...)
	var nb [8]byte
	binary.LittleEndian.PutUint64(nb[:], uint64(d.n))
	buf = append(buf, nb[:]...)
	buf = append(buf, line...)
	d.h = sha256.Sum256(buf)
	d.n++
	if d.Keep {
		d.Log = append(d.Log, line)
	}
	if KeepOutcomeLog {
		OutcomeLog = append(OutcomeLog, line)
	}
}

// KeepOutcomeLog makes every digest also append its lines to OutcomeLog (set per request by the
// worker when the supervisor wants to show where two executions of a scenario differ).
var KeepOutcomeLog bool
var OutcomeLog []string

func (d *Digest) Hex() string { return hex.EncodeToString(d.h[:8]) }

// ---------------------------------------------------------------- results

// Violation is one property violation found by a run.
type Violation struct {
	Sig string `json:"sig"` // stable signature (what failed, not where in the input)
	Msg string `json:"msg"` // human-readable details
}

// RunResult is what executing one scenario produced.
type RunResult struct {
	Seed       uint64            `json:"seed"`
	Digest     string            `json:"digest"`
	Violations []Violation       `json:"violations,omitempty"`
	Ticks      int64             `json:"ticks"`
	Evals      int               `json:"evals"` // evaluations of real code inside this run
	Faults     map[string]int    `json:"faults,omitempty"`
	Probes     map[string]int    `json:"probes,omitempty"`
	States     []uint64          `json:"states,omitempty"` // hashes of distinct states/interleavings by the check's measure
	Nontrivial bool              `json:"nontrivial"`
	CaseKey    uint64            `json:"case_key"` // hash identifying the case for distinct counting
	Scenario   json.RawMessage   `json:"scenario,omitempty"`
	Sample     json.RawMessage   `json:"sample,omitempty"`
	Inconcl    int               `json:"inconclusive,omitempty"`
	Notes      map[string]string `json:"notes,omitempty"`
	// AltScenario, when set by Exec, replaces the scenario in violation reports (e.g. with the
	// executed schedule made explicit so that replay does not depend on the generator).
	AltScenario json.RawMessage `json:"-"`
	Poisoned    bool            `json:"poisoned,omitempty"` // parked goroutines left behind: the worker must be replaced
	Log         []string        `json:"log,omitempty"`      // outcome log lines (only when requested)
}

func (r *RunResult) Fault(kind string) {
	if r.Faults == nil {
		r.Faults = map[string]int{}
	}
	r.Faults[kind]++
}

func (r *RunResult) FaultN(kind string, n int) {
	if n == 0 {
		return
	}
	if r.Faults == nil {
		r.Faults = map[string]int{}
	}
	r.Faults[kind] += n
}

func (r *RunResult) Probe(name string) {
	if r.Probes == nil {
		r.Probes = map[string]int{}
	}
	r.Probes[name]++
}

func (r *RunResult) ProbeN(name string, n int) {
	if n == 0 {
		return
	}
	if r.Probes == nil {
		r.Probes = map[string]int{}
	}
	r.Probes[name] += n
}

func (r *RunResult) Violate(sig, format string, args ...any) {
	msg := fmt.Sprintf(format, args...)
	if len(msg) > 1500 {
		msg = msg[:1500] + "…"
	}
	for _, v := range r.Violations {
		if v.Sig == sig {
			return
		}
	}
	r.Violations = append(r.Violations, Violation{Sig: sig, Msg: msg})
}

func (r *RunResult) State(h uint64) { r.States = append(r.States, h) }

// ---------------------------------------------------------------- check registry

// Check is one property's simulation.
type Check struct {
	ID    string
	Level string // exploration | fault_enumeration
	Race  bool   // needs the -race build
	// Isolation: how many scenarios of a quick batch are re-executed as the first thing a fresh
	// process does and compared with their outcome in the long-lived worker (0 = none)
	Isolation int
	// Runs per tier.
	QuickRuns, ThoroughRuns int
	// Gen derives a scenario from a seed. Pure.
	Gen func(seed uint64, tier string) any
	// GenIdx, when set, is used instead of Gen and also receives the run's index in the batch
	// (lets a check place a deterministic family, e.g. an exhaustive enumeration, in the first runs).
	GenIdx func(idx int, seed uint64, tier string) any
	// Exec executes a scenario. Deterministic. Must not panic for property violations.
	Exec func(sc json.RawMessage, res *RunResult)
	// Shrink proposes smaller scenarios (most aggressive first).
	Shrink func(sc json.RawMessage) []json.RawMessage
	// Rule is the evidence text: how cases are generated and what makes one non-trivial.
	Rule string
	// Components: which ran real code and which a stub.
	Real, Stub []string
	Assumptions []string
}

var Registry = map[string]*Check{}

func Register(c *Check) { Registry[c.ID] = c }

func CheckIDs() []string {
	var ids []string
	for id := range Registry {
		ids = append(ids, id)
	}
	sort.Strings(ids)
	return ids
}

func MustJSON(v any) json.RawMessage {
	b, err := json.Marshal(v)
	if err != nil {
		panic(err)
	}
	return b
}

func trunc(s string, n int) string {
	if len(s) <= n {
		return s
	}
	return s[:n] + "…"
}
