package sim

import (
	"bufio"
	"bytes"
	"encoding/json"
	"fmt"
	"io"
	"os"
	"os/exec"
	"path/filepath"
	"regexp"
	"runtime"
	"runtime/debug"
	"sort"
	"strconv"
	"strings"
	"sync"
	"time"
)

// ---------------------------------------------------------------- worker side

type workerReq struct {
	Op     string          `json:"op"` // gen | exec
	Seed   uint64          `json:"seed,omitempty"`
	Idx    int             `json:"idx"`
	Tier   string          `json:"tier,omitempty"`
	WantSc bool            `json:"want_sc,omitempty"`
	Sc     json.RawMessage `json:"sc,omitempty"`
	Warm   []IsoJob        `json:"warm,omitempty"` // op "multi": executed first, results discarded
	WantLog bool           `json:"want_log,omitempty"`
}

// IsoJob names a generated scenario by batch index and seed.
type IsoJob struct {
	Idx  int    `json:"idx"`
	Seed uint64 `json:"seed"`
}

// histRef is a prefix of a worker's execution history.
type histRef struct {
	h *[]IsoJob
	n int
}

func (r histRef) list() []IsoJob { return append([]IsoJob(nil), (*r.h)[:r.n]...) }

// IsoSpec is the replayable form of an isolation violation: the main scenario gives ExpectDigest when
// it is the first thing a fresh process executes, and another digest after the warm-up scenarios.
type IsoSpec struct {
	Tier         string   `json:"tier"`
	Warm         []IsoJob `json:"warm"`
	Main         IsoJob   `json:"main"`
	ExpectDigest string   `json:"expect_digest_in_fresh_process"`
}

// WorkerMain serves requests on stdin until EOF. A worker is an OS process of its own because
// stack exhaustion and out-of-memory are not recoverable in Go: its death is an observation.
func WorkerMain(id string) {
	c := Registry[id]
	if c == nil {
		fmt.Fprintln(os.Stderr, "unknown check", id)
		os.Exit(2)
	}
	debug.SetMaxStack(256 << 20)
	debug.SetGCPercent(100)
	go memoryGuard(1 << 30)
	rc := newRaceCollector()
	in := bufio.NewReaderSize(os.Stdin, 1<<20)
	out := bufio.NewWriter(os.Stdout)
	for {
		line, err := in.ReadBytes('\n')
		if len(line) > 0 {
			var req workerReq
			if e := json.Unmarshal(line, &req); e != nil {
				fmt.Fprintln(os.Stderr, "bad request:", e)
				os.Exit(2)
			}
			var sc json.RawMessage
			res := &RunResult{Seed: req.Seed}
			switch req.Op {
			case "multi":
				for _, w := range req.Warm {
					wr := &RunResult{Seed: w.Seed}
					c.Exec(genScenario(c, w.Idx, w.Seed, req.Tier), wr)
					if wr.Poisoned {
						os.Exit(0)
					}
				}
				sc = genScenario(c, req.Idx, req.Seed, req.Tier)
			case "gen":
				sc = genScenario(c, req.Idx, req.Seed, req.Tier)
			case "exec":
				sc = req.Sc
			default:
				fmt.Fprintln(os.Stderr, "bad op", req.Op)
				os.Exit(2)
			}
			fmt.Fprintf(out, "B %d\n", req.Seed)
			out.Flush()
			KeepOutcomeLog, OutcomeLog = req.WantLog, nil
			c.Exec(sc, res)
			if req.WantLog {
				res.Log = OutcomeLog
			}
			KeepOutcomeLog, OutcomeLog = false, nil
			rc.collect(res)
			if req.WantSc || len(res.Violations) > 0 {
				res.Scenario = sc
				if res.AltScenario != nil && len(res.Violations) > 0 {
					res.Scenario = res.AltScenario
				}
			}
			b, e := json.Marshal(res)
			if e != nil {
				fmt.Fprintln(os.Stderr, "marshal result:", e)
				os.Exit(2)
			}
			out.WriteString("R ")
			out.Write(b)
			out.WriteString("\n")
			out.Flush()
			if res.Poisoned {
				os.Exit(0)
			}
		}
		if err != nil {
			return
		}
	}
}

func genScenario(c *Check, idx int, seed uint64, tier string) json.RawMessage {
	if c.GenIdx != nil {
		return MustJSON(c.GenIdx(idx, seed, tier))
	}
	return MustJSON(c.Gen(seed, tier))
}

// memoryGuard turns a runaway allocation into a fast, classifiable death instead of eating the box.
func memoryGuard(limit uint64) {
	var ms runtime.MemStats
	for {
		time.Sleep(10 * time.Millisecond)
		runtime.ReadMemStats(&ms)
		if ms.HeapAlloc > limit {
			// garbage of earlier runs counts in HeapAlloc: collect first, then decide
			runtime.GC()
			runtime.ReadMemStats(&ms)
		}
		if ms.HeapAlloc > limit {
			fmt.Fprintf(os.Stderr, "fatal error: out of memory (simulator heap limit %d MiB exceeded, heap=%d MiB)\n", limit>>20, ms.HeapAlloc>>20)
			buf := make([]byte, 1<<16)
			n := runtime.Stack(buf, true)
			os.Stderr.Write(buf[:n])
			os.Exit(99)
		}
	}
}

// raceCollector reads the race detector's log (GORACE=log_path=…) after every run and turns new
// reports into violations whose signature is the pair of innermost dicescript frames.
type raceCollector struct {
	path string
	off  int64
}

func newRaceCollector() *raceCollector {
	p := os.Getenv("VERIF_RACE_LOG")
	if p == "" {
		return &raceCollector{}
	}
	return &raceCollector{path: p + "." + strconv.Itoa(os.Getpid())}
}

var reFrameFunc = regexp.MustCompile(`^  ([^\s(][^\n]*?)\(\)$`)

func (rc *raceCollector) collect(res *RunResult) {
	if rc.path == "" {
		return
	}
	f, err := os.Open(rc.path)
	if err != nil {
		return
	}
	defer f.Close()
	f.Seek(rc.off, io.SeekStart)
	data, _ := io.ReadAll(f)
	rc.off += int64(len(data))
	if len(data) == 0 {
		return
	}
	for _, rep := range strings.Split(string(data), "==================") {
		if !strings.Contains(rep, "WARNING: DATA RACE") {
			continue
		}
		sig, ok := raceSignature(rep)
		if !ok {
			res.Violate("harness-race", "race report without a dicescript frame (harness bug):\n%s", rep)
			continue
		}
		res.Violate(sig, "%s", strings.TrimSpace(rep))
	}
}

// raceSignature reduces a report to the sorted pair of innermost dicescript functions of the two
// conflicting accesses.
func raceSignature(rep string) (string, bool) {
	var stacks [][]string
	var cur []string
	inAccess := false
	for _, ln := range strings.Split(rep, "\n") {
		t := strings.TrimRight(ln, " ")
		switch {
		case strings.HasPrefix(t, "Read at ") || strings.HasPrefix(t, "Write at ") ||
			strings.HasPrefix(t, "Previous read at ") || strings.HasPrefix(t, "Previous write at ") ||
			strings.HasPrefix(t, "Atomic ") || strings.HasPrefix(t, "Previous atomic "):
			if inAccess {
				stacks = append(stacks, cur)
			}
			cur = nil
			inAccess = true
		case strings.HasPrefix(t, "Goroutine "):
			if inAccess {
				stacks = append(stacks, cur)
				inAccess = false
			}
		case inAccess:
			if m := reFrameFunc.FindStringSubmatch(t); m != nil {
				cur = append(cur, m[1])
			}
		}
	}
	if inAccess {
		stacks = append(stacks, cur)
	}
	var fr []string
	for _, st := range stacks {
		for _, fn := range st {
			if strings.Contains(fn, "sealdice/dicescript.") {
				fn = fn[strings.Index(fn, "sealdice/dicescript.")+len("sealdice/"):]
				// closures: keep the enclosing function
				if i := strings.Index(fn, ".func"); i > 0 {
					fn = fn[:i]
				}
				fr = append(fr, fn)
				break
			}
		}
	}
	if len(fr) == 0 {
		return "", false
	}
	sort.Strings(fr)
	fr = uniq(fr)
	return "race:" + strings.Join(fr, "<->"), true
}

func uniq(xs []string) []string {
	var out []string
	for i, x := range xs {
		if i == 0 || x != xs[i-1] {
			out = append(out, x)
		}
	}
	return out
}

// ---------------------------------------------------------------- supervisor side

type Opts struct {
	Tier     string
	Seed     uint64
	Workers  int
	Runs     int           // override
	WallCap  time.Duration // stop dealing new seeds after this
	Replay   string
	VerifDir string
	Selftest int // re-run this many seeds on another worker and compare digests
	NoMin    bool
}

type proc struct {
	cmd    *exec.Cmd
	in     io.WriteCloser
	out    *bufio.Reader
	stderr *tailBuf
	id     int
}

type tailBuf struct {
	mu  sync.Mutex
	buf []byte
}

func (t *tailBuf) Write(p []byte) (int, error) {
	t.mu.Lock()
	t.buf = append(t.buf, p...)
	if len(t.buf) > 1<<16 {
		// keep head (the fatal error line) and tail
		head := append([]byte(nil), t.buf[:1<<14]...)
		t.buf = append(head, t.buf[len(t.buf)-(1<<14):]...)
	}
	t.mu.Unlock()
	return len(p), nil
}
func (t *tailBuf) String() string { t.mu.Lock(); defer t.mu.Unlock(); return string(t.buf) }

var procSeq int
var procMu sync.Mutex

// spawnGomaxprocs is what workers run with; the determinism re-check uses another value on purpose.
var spawnGomaxprocs = "2"

func spawn(c *Check, raceDir string) (*proc, error) {
	procMu.Lock()
	procSeq++
	id := procSeq
	procMu.Unlock()
	cmd := exec.Command(os.Args[0], "worker", c.ID)
	cmd.Env = append(os.Environ(), "GOMAXPROCS="+spawnGomaxprocs, "GOTRACEBACK=single")
	if c.Race {
		cmd.Env = append(cmd.Env,
			"GORACE=log_path="+filepath.Join(raceDir, "race")+" halt_on_error=0 history_size=3",
			"VERIF_RACE_LOG="+filepath.Join(raceDir, "race"))
	}
	in, err := cmd.StdinPipe()
	if err != nil {
		return nil, err
	}
	outp, err := cmd.StdoutPipe()
	if err != nil {
		return nil, err
	}
	tb := &tailBuf{}
	cmd.Stderr = tb
	if err := cmd.Start(); err != nil {
		return nil, err
	}
	return &proc{cmd: cmd, in: in, out: bufio.NewReaderSize(outp, 1<<20), stderr: tb, id: id}, nil
}

func (p *proc) kill() {
	p.in.Close()
	if p.cmd.Process != nil {
		p.cmd.Process.Kill()
	}
	p.cmd.Wait()
}

type callOutcome struct {
	res     *RunResult
	died    bool
	timeout bool
	stderr  string
}

// call sends one request and waits for the result, the worker's death, or the watchdog.
func (p *proc) call(req workerReq, watchdog time.Duration) callOutcome {
	b, _ := json.Marshal(req)
	b = append(b, '\n')
	if _, err := p.in.Write(b); err != nil {
		p.cmd.Wait()
		return callOutcome{died: true, stderr: p.stderr.String()}
	}
	type rd struct {
		res *RunResult
		err error
	}
	ch := make(chan rd, 1)
	go func() {
		for {
			line, err := p.out.ReadBytes('\n')
			if bytes.HasPrefix(line, []byte("R ")) {
				var r RunResult
				if e := json.Unmarshal(line[2:], &r); e != nil {
					ch <- rd{nil, e}
					return
				}
				ch <- rd{&r, nil}
				return
			}
			if err != nil {
				ch <- rd{nil, err}
				return
			}
		}
	}()
	select {
	case r := <-ch:
		if r.err != nil {
			p.cmd.Wait()
			return callOutcome{died: true, stderr: p.stderr.String()}
		}
		return callOutcome{res: r.res}
	case <-time.After(watchdog):
		p.kill()
		return callOutcome{died: true, timeout: true, stderr: p.stderr.String()}
	}
}

var reGoroutineHdr = regexp.MustCompile(`(?m)^goroutine \d+`)

func fatalClass(stderr string, timeout bool) (string, string) {
	if timeout {
		return "hang", "run exceeded the wall-clock watchdog twice (second time alone, with a 3x limit)"
	}
	first := ""
	for _, ln := range strings.Split(stderr, "\n") {
		if strings.HasPrefix(ln, "fatal error:") || strings.HasPrefix(ln, "runtime: goroutine stack exceeds") || strings.HasPrefix(ln, "panic:") {
			first = ln
			break
		}
	}
	cls := "unknown"
	switch {
	case strings.Contains(stderr, "stack overflow") || strings.Contains(stderr, "goroutine stack exceeds"):
		cls = "stack-overflow"
	case strings.Contains(stderr, "out of memory"):
		cls = "out-of-memory"
	case strings.Contains(first, "panic:"):
		cls = "unrecovered-panic"
	case strings.Contains(first, "fatal error:"):
		cls = strings.TrimSpace(strings.TrimPrefix(first, "fatal error:"))
	}
	// innermost dicescript frame, if the traceback has one
	site := ""
	for _, ln := range strings.Split(stderr, "\n") {
		if strings.HasPrefix(ln, "github.com/sealdice/dicescript.") && !strings.Contains(ln, "dicescript.verif") && !strings.Contains(ln, "dicescript.Verif") {
			site = strings.TrimPrefix(ln, "github.com/sealdice/")
			// drop the argument list: the last '(' that is followed by an address or "..."
			if i := strings.LastIndex(site, "("); i > 0 {
				site = site[:i]
			}
			site = strings.TrimSuffix(site, ".func1")
			break
		}
	}
	if site != "" {
		cls += "@" + site
	}
	return "fatal:" + cls, trunc(stderr, 3000)
}

type foundViolation struct {
	Violation
	Seed     uint64
	Scenario json.RawMessage
	Count    int
}

type Finding struct {
	Status   string `json:"status"` // open | fixed
	Property string `json:"property"`
	Sig      string `json:"sig,omitempty"`
	SigRe    string `json:"sig_re,omitempty"`
	Commit   string `json:"commit,omitempty"`
	What     string `json:"what"`
}

func loadFindings(dir string) ([]Finding, error) {
	f, err := os.Open(filepath.Join(dir, "known_findings.jsonl"))
	if err != nil {
		if os.IsNotExist(err) {
			return nil, nil
		}
		return nil, err
	}
	defer f.Close()
	var out []Finding
	sc := bufio.NewScanner(f)
	sc.Buffer(make([]byte, 1<<20), 1<<20)
	for sc.Scan() {
		ln := strings.TrimSpace(sc.Text())
		if ln == "" || strings.HasPrefix(ln, "#") {
			continue
		}
		var fd Finding
		if err := json.Unmarshal([]byte(ln), &fd); err != nil {
			return nil, fmt.Errorf("known_findings.jsonl: %v", err)
		}
		out = append(out, fd)
	}
	return out, nil
}

func matchFinding(fs []Finding, prop, sig string) *Finding {
	for i := range fs {
		f := &fs[i]
		if f.Status != "open" || f.Property != prop {
			continue
		}
		if f.Sig != "" && f.Sig == sig {
			return f
		}
		if f.SigRe != "" {
			if ok, _ := regexp.MatchString("^(?:"+f.SigRe+")$", sig); ok {
				return f
			}
		}
	}
	return nil
}

// Supervise runs a batch of simulated runs for one check and returns the process exit code.
func Supervise(c *Check, o Opts) int {
	start := time.Now()
	findings, err := loadFindings(o.VerifDir)
	if err != nil {
		fmt.Fprintln(os.Stderr, "infrastructure:", err)
		return 2
	}
	raceDir, _ := os.MkdirTemp("", "verif-race-")
	defer os.RemoveAll(raceDir)

	if o.Replay != "" {
		return replay(c, o, raceDir, findings)
	}

	runs := c.QuickRuns
	if o.Tier == "thorough" {
		runs = c.ThoroughRuns
	}
	if o.Runs > 0 {
		runs = o.Runs
	}
	if o.Workers <= 0 {
		o.Workers = 16
	}
	watchdog := 40 * time.Second
	if o.Tier == "thorough" {
		watchdog = 90 * time.Second
	}

	type job struct {
		idx  int
		seed uint64
	}
	jobs := make(chan job)
	var mu sync.Mutex
	agg := &aggregate{faults: map[string]int{}, probes: map[string]int{}, cases: map[uint64]bool{}, states: map[uint64]bool{}, digests: map[uint64]string{}}
	found := map[string]*foundViolation{}
	infra := []string{}
	warnings := []string{}
	histOf := map[uint64]histRef{} // seed -> what its worker had executed before it
	isoSpecs := map[uint64]IsoSpec{}
	checkHash := HashStr(c.ID)

	var wg sync.WaitGroup
	for w := 0; w < o.Workers; w++ {
		wg.Add(1)
		go func() {
			defer wg.Done()
			p, err := spawn(c, raceDir)
			if err != nil {
				mu.Lock()
				infra = append(infra, "spawn: "+err.Error())
				mu.Unlock()
				for range jobs {
				}
				return
			}
			defer func() { p.kill() }()
			// what this worker process has executed so far (restarts with the process); a scenario's
			// warm-up list is a prefix of it, remembered as (history, length)
			hist := &[]IsoJob{}
			for j := range jobs {
				if c.Isolation > 0 {
					mu.Lock()
					histOf[j.seed] = histRef{h: hist, n: len(*hist)}
					mu.Unlock()
					*hist = append(*hist, IsoJob{Idx: j.idx, Seed: j.seed})
				}
				req := workerReq{Op: "gen", Seed: j.seed, Idx: j.idx, Tier: o.Tier, WantSc: j.idx < 3 || j.idx == 20}
				oc := p.call(req, watchdog)
				if oc.died {
					// confirm alone, in a fresh process
					p2, err := spawn(c, raceDir)
					if err == nil {
						oc2 := p2.call(req, 3*watchdog)
						if oc2.died {
							sig, msg := fatalClass(oc2.stderr, oc2.timeout)
							sc := genScenario(c, j.idx, j.seed, o.Tier)
							mu.Lock()
							addFound(found, Violation{Sig: sig, Msg: msg}, j.seed, sc)
							agg.runs++
							mu.Unlock()
						} else {
							mu.Lock()
							agg.flakyDeaths++
							agg.runs++
							// not reproducible alone: memory pressure from earlier runs in the same worker or a
							// busy machine. Counted in the evidence; becomes trouble only if frequent.
							warnings = append(warnings, fmt.Sprintf("worker died on seed %d but the solo re-run passed (timeout=%v): %s", j.seed, oc.timeout, trunc(oc.stderr, 200)))
							mu.Unlock()
							p2.kill()
						}
					}
					p, err = spawn(c, raceDir)
					hist = &[]IsoJob{}
					if err != nil {
						mu.Lock()
						infra = append(infra, "respawn: "+err.Error())
						mu.Unlock()
						for range jobs {
						}
						return
					}
					continue
				}
				mu.Lock()
				agg.add(oc.res, j.idx)
				for _, v := range oc.res.Violations {
					addFound(found, v, j.seed, oc.res.Scenario)
				}
				mu.Unlock()
				if oc.res.Poisoned {
					p.kill()
					p, err = spawn(c, raceDir)
					if err != nil {
						mu.Lock()
						infra = append(infra, "respawn: "+err.Error())
						mu.Unlock()
						for range jobs {
						}
						return
					}
				}
			}
		}()
	}
	stopped := false
	for i := 0; i < runs; i++ {
		if o.WallCap > 0 && time.Since(start) > o.WallCap {
			stopped = true
			break
		}
		jobs <- job{i, Mix(o.Seed, checkHash, uint64(i))}
	}
	close(jobs)
	wg.Wait()

	// determinism self-test on a sample: same seed, fresh process, same digest
	selfN := o.Selftest
	if selfN > agg.runs {
		selfN = agg.runs
	}
	selfBad := 0
	if selfN > 0 {
		spawnGomaxprocs = "7" // a different degree of real parallelism must not change any run
		p, err := spawn(c, raceDir)
		if err == nil {
			for i := 0; i < selfN; i++ {
				seed := Mix(o.Seed, checkHash, uint64(i))
				want, ok := agg.digests[seed]
				if !ok {
					continue
				}
				oc := p.call(workerReq{Op: "gen", Seed: seed, Idx: i, Tier: o.Tier}, 3*watchdog)
				if oc.died {
					p, _ = spawn(c, raceDir)
					continue
				}
				agg.selfChecked++
				if oc.res.Digest != want {
					selfBad++
					if c.Isolation > 0 {
						// for these checks a digest that depends on process history is decided by the isolation
						// re-check below (a property violation if the warm-up replay reproduces it)
						warnings = append(warnings, fmt.Sprintf("digest of seed %d differs between the batch and a fresh process (%s vs %s)", seed, want, oc.res.Digest))
					} else {
						infra = append(infra, fmt.Sprintf("nondeterminism: seed %d digest %s vs %s", seed, want, oc.res.Digest))
					}
				}
			}
			if p != nil {
				p.kill()
			}
		}
	}

	// isolation re-check: a sample of scenarios is executed again as the first thing a fresh process
	// does; the outcome log must be the same as in the worker that had executed other scenarios
	// before. A difference means state kept at package level lets earlier evaluations (other VMs)
	// influence later ones.
	if c.Isolation > 0 && agg.runs > 0 {
		var cand []uint64
		for seed, h := range histOf {
			if h.n >= 1 {
				if _, ok := agg.digests[seed]; ok {
					cand = append(cand, seed)
				}
			}
		}
		sort.Slice(cand, func(i, j int) bool { return cand[i] < cand[j] })
		n := c.Isolation
		if o.Tier == "thorough" {
			n *= 5
		}
		step := 1
		if len(cand) > n {
			step = len(cand) / n
		}
		idxOf := map[uint64]int{}
		for i := 0; i < runs; i++ {
			idxOf[Mix(o.Seed, checkHash, uint64(i))] = i
		}
		isoFound := false
		for k := 0; k < len(cand) && !isoFound; k += step {
			seed := cand[k]
			p, err := spawn(c, raceDir)
			if err != nil {
				break
			}
			oc := p.call(workerReq{Op: "gen", Seed: seed, Idx: idxOf[seed], Tier: o.Tier}, 3*watchdog)
			p.kill()
			if oc.died {
				continue
			}
			agg.isoChecked++
			if oc.res.Digest == agg.digests[seed] {
				continue
			}
			// confirm with the explicit warm-up list in one fresh process
			spec := IsoSpec{Tier: o.Tier, Warm: histOf[seed].list(), Main: IsoJob{Idx: idxOf[seed], Seed: seed}, ExpectDigest: oc.res.Digest}
			if got, ok := runIso(c, raceDir, spec, 5*watchdog); ok && got != spec.ExpectDigest {
				spec = minimiseIso(c, raceDir, spec, watchdog)
				sc := MustJSON(spec)
				diff := isoDiff(c, raceDir, spec, 5*watchdog)
				addFound(found, Violation{Sig: "isolation:outcome-depends-on-earlier-evaluations", Msg: diffMsg(diff) + fmt.Sprintf("scenario (seed %d) produces outcome log %s when it is the first thing a process executes and %s after %d other scenario(s) ran in the same process: package-level state lets unrelated VMs' earlier evaluations change its results", seed, spec.ExpectDigest, got, len(spec.Warm))}, seed, sc)
				isoSpecs[seed] = spec
				isoFound = true
			} else {
				infra = append(infra, fmt.Sprintf("nondeterminism: seed %d gives %s in the batch, %s in a fresh process, and the warm-up replay does not reproduce it", seed, agg.digests[seed], oc.res.Digest))
			}
		}
	}

	// classify
	var sigs []string
	for s := range found {
		sigs = append(sigs, s)
	}
	sort.Strings(sigs)
	exit := 0
	known := map[string]bool{}
	var unknown []*foundViolation
	for _, s := range sigs {
		fv := found[s]
		if s == "harness-race" {
			infra = append(infra, "race report without dicescript frame: "+trunc(fv.Msg, 600))
			continue
		}
		if f := matchFinding(findings, c.ID, s); f != nil {
			key := f.Sig + f.SigRe
			if !known[key] {
				known[key] = true
				fmt.Printf("KNOWN-FINDING: property=%s %s [sig=%s, seen in %d runs]\n", c.ID, f.What, s, fv.Count)
			}
			continue
		}
		unknown = append(unknown, fv)
	}
	os.MkdirAll(filepath.Join(o.VerifDir, "replays"), 0o755)
	minimised := 0
	for _, fv := range unknown {
		sc := fv.Scenario
		steps := 0
		if !o.NoMin && c.Shrink != nil && sc != nil && minimised < 4 && !strings.HasPrefix(fv.Sig, "isolation:") {
			// minimise the first few signatures only: a broken tree can produce dozens
			minimised++
			sc, steps = minimise(c, raceDir, sc, fv.Sig, 40*time.Second, watchdog)
		}
		path := filepath.Join(o.VerifDir, "replays", fmt.Sprintf("%s-%d.json", c.ID, fv.Seed))
		rf := ReplayFile{Property: c.ID, Sig: fv.Sig, Msg: fv.Msg, Seed: fv.Seed, Tier: o.Tier, Scenario: sc, ShrinkSteps: steps}
		if spec, ok := isoSpecs[fv.Seed]; ok && strings.HasPrefix(fv.Sig, "isolation:") {
			rf.Isolation = &spec
			rf.Scenario = genScenario(c, spec.Main.Idx, spec.Main.Seed, spec.Tier)
		}
		b, _ := json.MarshalIndent(rf, "", " ")
		os.WriteFile(path, b, 0o644)
		fmt.Printf("VIOLATION property=%s replay=%s\n", c.ID, path)
		fmt.Printf("  sig=%s seed=%d runs_with_it=%d\n  %s\n", fv.Sig, fv.Seed, fv.Count, strings.ReplaceAll(trunc(fv.Msg, 1200), "\n", "\n  "))
		exit = 1
	}
	wall := time.Since(start).Seconds()
	if err := writeEvidence(c, o, agg, len(unknown), len(known), wall, stopped, infra); err != nil {
		infra = append(infra, "evidence: "+err.Error())
	}
	fmt.Printf("%s tier=%s seed=%d runs=%d evals=%d distinct_nontrivial=%d states=%d ticks=%d violations=%d known=%d wall=%.1fs\n",
		c.ID, o.Tier, o.Seed, agg.runs, agg.evals, len(agg.cases), len(agg.states), agg.ticks, len(unknown), len(known), wall)
	for _, w := range warnings {
		fmt.Fprintln(os.Stderr, "warning:", w)
	}
	if agg.runs > 0 && len(warnings)*200 > agg.runs+2000 {
		infra = append(infra, fmt.Sprintf("%d worker deaths that did not repeat alone in %d runs", len(warnings), agg.runs))
	}
	if len(infra) > 0 {
		for _, m := range infra {
			fmt.Fprintln(os.Stderr, "infrastructure:", m)
		}
		if exit == 0 {
			return 2
		}
	}
	if agg.runs == 0 {
		fmt.Fprintln(os.Stderr, "infrastructure: no run completed")
		return 2
	}
	return exit
}

func addFound(found map[string]*foundViolation, v Violation, seed uint64, sc json.RawMessage) {
	if fv, ok := found[v.Sig]; ok {
		fv.Count++
		// keep the smallest scenario as the starting point for minimisation
		if sc != nil && (fv.Scenario == nil || len(sc) < len(fv.Scenario)) {
			fv.Scenario, fv.Seed, fv.Msg = sc, seed, v.Msg
		}
		return
	}
	found[v.Sig] = &foundViolation{Violation: v, Seed: seed, Scenario: sc, Count: 1}
}

type aggregate struct {
	runs, evals   int
	ticks         int64
	nontrivial    int
	faults        map[string]int
	probes        map[string]int
	cases         map[uint64]bool
	states        map[uint64]bool
	digests       map[uint64]string
	samples       []json.RawMessage
	inconcl       int
	flakyDeaths   int
	selfChecked   int
	isoChecked    int
}

func (a *aggregate) add(r *RunResult, idx int) {
	a.runs++
	a.evals += r.Evals
	a.ticks += r.Ticks
	a.inconcl += r.Inconcl
	for k, v := range r.Faults {
		a.faults[k] += v
	}
	for k, v := range r.Probes {
		a.probes[k] += v
	}
	if r.Nontrivial {
		a.nontrivial++
		a.cases[r.CaseKey] = true
	}
	for _, s := range r.States {
		a.states[s] = true
	}
	if len(a.digests) < 4096 {
		a.digests[r.Seed] = r.Digest
	}
	if idx < 3 || idx == 20 {
		if r.Sample != nil {
			a.samples = append(a.samples, r.Sample)
		} else if r.Scenario != nil {
			a.samples = append(a.samples, r.Scenario)
		}
	}
}

// ---------------------------------------------------------------- replay & minimisation

type ReplayFile struct {
	Property    string          `json:"property"`
	Sig         string          `json:"sig"`
	Msg         string          `json:"msg"`
	Seed        uint64          `json:"seed"`
	Tier        string          `json:"tier"`
	ShrinkSteps int             `json:"shrink_steps"`
	Scenario    json.RawMessage `json:"scenario"`
	Isolation   *IsoSpec        `json:"isolation,omitempty"`
}

// runIso executes warm-ups then the main scenario in one fresh process and returns the main digest.
func runIso(c *Check, raceDir string, spec IsoSpec, watchdog time.Duration) (string, bool) {
	d, _, ok := runIsoLog(c, raceDir, spec, watchdog, false)
	return d, ok
}

func runIsoLog(c *Check, raceDir string, spec IsoSpec, watchdog time.Duration, wantLog bool) (string, []string, bool) {
	p, err := spawn(c, raceDir)
	if err != nil {
		return "", nil, false
	}
	defer p.kill()
	oc := p.call(workerReq{Op: "multi", Warm: spec.Warm, Seed: spec.Main.Seed, Idx: spec.Main.Idx, Tier: spec.Tier, WantLog: wantLog}, watchdog)
	if oc.died {
		return "", nil, false
	}
	return oc.res.Digest, oc.res.Log, true
}

// isoDiff shows the first outcome-log entry in which the two situations differ.
func isoDiff(c *Check, raceDir string, spec IsoSpec, watchdog time.Duration) string {
	_, warm, ok1 := runIsoLog(c, raceDir, spec, watchdog, true)
	cold := spec
	cold.Warm = nil
	_, fresh, ok2 := runIsoLog(c, raceDir, cold, watchdog, true)
	if !ok1 || !ok2 {
		return ""
	}
	for i := 0; i < len(warm) || i < len(fresh); i++ {
		var a, b string
		if i < len(fresh) {
			a = fresh[i]
		}
		if i < len(warm) {
			b = warm[i]
		}
		if a != b {
			clean := func(s string) string {
				return trunc(strings.NewReplacer("\x1f", " | ", "\x1e", " ; ").Replace(s), 700)
			}
			return fmt.Sprintf("\n  first differing outcome-log entry (#%d):\n    first in a fresh process: %s\n    after the warm-up:        %s", i, clean(a), clean(b))
		}
	}
	return ""
}

func diffMsg(d string) string {
	if d == "" {
		return ""
	}
	return strings.TrimPrefix(d, "\n") + "\n  "
}

// minimiseIso shrinks the warm-up list while the main scenario's digest still differs.
func minimiseIso(c *Check, raceDir string, spec IsoSpec, watchdog time.Duration) IsoSpec {
	deadline := time.Now().Add(60 * time.Second)
	differs := func(w []IsoJob) bool {
		s2 := spec
		s2.Warm = w
		got, ok := runIso(c, raceDir, s2, 5*watchdog)
		return ok && got != spec.ExpectDigest
	}
	chunk := len(spec.Warm) / 2
	for chunk >= 1 && time.Now().Before(deadline) {
		removed := false
		for i := 0; i+chunk <= len(spec.Warm) && time.Now().Before(deadline); {
			w := append(append([]IsoJob{}, spec.Warm[:i]...), spec.Warm[i+chunk:]...)
			if differs(w) {
				spec.Warm = w
				removed = true
			} else {
				i += chunk
			}
		}
		if !removed || chunk == 1 {
			chunk /= 2
		}
	}
	return spec
}

func execOnce(c *Check, raceDir string, sc json.RawMessage, watchdog time.Duration) (sigs map[string]string, ok bool) {
	p, err := spawn(c, raceDir)
	if err != nil {
		return nil, false
	}
	defer p.kill()
	oc := p.call(workerReq{Op: "exec", Sc: sc}, watchdog)
	sigs = map[string]string{}
	if oc.died {
		s, m := fatalClass(oc.stderr, oc.timeout)
		sigs[s] = m
		return sigs, true
	}
	for _, v := range oc.res.Violations {
		sigs[v.Sig] = v.Msg
	}
	return sigs, true
}

func replay(c *Check, o Opts, raceDir string, findings []Finding) int {
	b, err := os.ReadFile(o.Replay)
	if err != nil {
		fmt.Fprintln(os.Stderr, "infrastructure:", err)
		return 2
	}
	var rf ReplayFile
	if err := json.Unmarshal(b, &rf); err != nil {
		fmt.Fprintln(os.Stderr, "infrastructure: bad replay file:", err)
		return 2
	}
	if rf.Isolation != nil {
		got, ok := runIso(c, raceDir, *rf.Isolation, 10*time.Minute)
		if !ok {
			fmt.Fprintln(os.Stderr, "infrastructure: could not run the isolation replay")
			return 2
		}
		if got != rf.Isolation.ExpectDigest {
			fmt.Printf("VIOLATION property=%s replay=%s\n  sig=%s\n  after %d warm-up scenario(s) the main scenario's outcome log is %s; first in a fresh process it is %s\n", c.ID, o.Replay, rf.Sig, len(rf.Isolation.Warm), got, rf.Isolation.ExpectDigest)
			return 1
		}
		fmt.Printf("replay of %s did not reproduce sig=%s (outcome log %s in both situations)\n", o.Replay, rf.Sig, got)
		return 0
	}
	sigs, ok := execOnce(c, raceDir, rf.Scenario, 5*time.Minute)
	if !ok {
		fmt.Fprintln(os.Stderr, "infrastructure: could not run the replay")
		return 2
	}
	if msg, hit := sigs[rf.Sig]; hit {
		fmt.Printf("VIOLATION property=%s replay=%s\n  sig=%s\n  %s\n", c.ID, o.Replay, rf.Sig, strings.ReplaceAll(trunc(msg, 2000), "\n", "\n  "))
		return 1
	}
	fmt.Printf("replay of %s did not reproduce sig=%s (got %d other signatures)\n", o.Replay, rf.Sig, len(sigs))
	for s := range sigs {
		fmt.Println("  other:", s)
	}
	return 0
}

// minimise is delta debugging over the scenario while the same signature persists.
func minimise(c *Check, raceDir string, sc json.RawMessage, sig string, budget, watchdog time.Duration) (json.RawMessage, int) {
	deadline := time.Now().Add(budget)
	steps := 0
	p, err := spawn(c, raceDir)
	if err != nil {
		return sc, 0
	}
	defer func() {
		if p != nil {
			p.kill()
		}
	}()
	try := func(cand json.RawMessage) bool {
		if p == nil {
			p, err = spawn(c, raceDir)
			if err != nil {
				return false
			}
		}
		oc := p.call(workerReq{Op: "exec", Sc: cand}, watchdog)
		if oc.died {
			s, _ := fatalClass(oc.stderr, oc.timeout)
			p = nil
			return s == sig
		}
		if oc.res.Poisoned {
			p.kill()
			p = nil
		}
		for _, v := range oc.res.Violations {
			if v.Sig == sig {
				return true
			}
		}
		return false
	}
	progress := true
	for progress && time.Now().Before(deadline) {
		progress = false
		for _, cand := range c.Shrink(sc) {
			if time.Now().After(deadline) {
				break
			}
			if len(cand) >= len(sc) && bytes.Equal(cand, sc) {
				continue
			}
			if try(cand) {
				sc = cand
				steps++
				progress = true
				break
			}
		}
	}
	return sc, steps
}

// ---------------------------------------------------------------- evidence

func writeEvidence(c *Check, o Opts, a *aggregate, nviol, nknown int, wall float64, stopped bool, infra []string) error {
	samples := a.samples
	if len(samples) == 0 {
		samples = []json.RawMessage{MustJSON("no sample captured")}
	}
	perHour := 0.0
	if wall > 0 {
		perHour = float64(a.runs) / wall * 3600
	}
	cov := map[string]any{
		"evaluations":              a.runs,
		"distinct_nontrivial":      len(a.cases),
		"rule":                     c.Rule,
		"samples":                  samples,
		"real_code_evaluations":    a.evals,
		"simulated_ticks":          a.ticks,
		"runs_per_hour":            int64(perHour),
		"seeds_per_hour":           int64(perHour),
		"faults_fired":             a.faults,
		"reach_probes":             a.probes,
		"distinct_states":          len(a.states),
		"nontrivial_runs":          a.nontrivial,
		"inconclusive":             a.inconcl,
		"known_findings_printed":   nknown,
		"determinism_rechecked":    a.selfChecked,
		"isolation_rechecked":      a.isoChecked,
		"stopped_by_wall_cap":      stopped,
		"components_real":          c.Real,
		"components_stub":          c.Stub,
		"workers":                  o.Workers,
		"race_detector":            c.Race,
		"exhaustive":               false,
		"infrastructure_messages":  infra,
		"worker_deaths_not_repeat": a.flakyDeaths,
	}
	ev := map[string]any{
		"property_id": c.ID,
		"tier":        o.Tier,
		"seed":        int64(o.Seed & 0x7fffffffffffffff),
		"level":       c.Level,
		"coverage":    cov,
		"assumptions": c.Assumptions,
		"wall_s":      wall,
		"violations":  nviol,
	}
	b, err := json.MarshalIndent(ev, "", " ")
	if err != nil {
		return err
	}
	dir := filepath.Join(o.VerifDir, "evidence")
	os.MkdirAll(dir, 0o755)
	return os.WriteFile(filepath.Join(dir, c.ID+".json"), b, 0o644)
}
