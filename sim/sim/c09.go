package sim

import (
	"strconv"
	"encoding/hex"
	"encoding/json"
	"fmt"
	"math"
	"strings"

	ds "github.com/sealdice/dicescript"
)

// C09 — JSON snapshot and restore of variables is transparent.
//
// Simulated protocol: the host runs a session statement by statement; after each statement it
// writes {variables as JSON, generator bytes} to the simulated disk and syncs. Crash points are
// enumerated completely inside each scenario: for every p the process dies after statement p, a
// fresh VM is built from the last durable snapshot, and statements p+1..n run on it; their
// outcomes must equal those of the run that never crashed.

type C09Scenario struct {
	GlobalSeed uint64
	Cfg        CfgSpec
	Stmts      []string
	// StaleAt: fault "lost write" — at this crash point the snapshot that survives is the one before
	// (then statement p is re-executed too). -1 = none.
	StaleAt int
}

func c09Gen(seed uint64, tier string) any {
	r := NewRng(seed)
	cfg := GenCfg(r).Tame()
	cfg.OpLimit = 30000
	cfg.Seeded = true
	o := SwarmOpts(r, cfg)
	o.Containers = true
	o.Computed = r.Chance(3, 4)
	o.Funcs = o.Stmts && r.Chance(3, 4)
	o.Macros = r.Chance(1, 3)
	o.BigNums = r.Chance(1, 10)
	o.RandMeth = r.Chance(1, 4)
	o.EdgeFloats = o.Floats && r.Chance(1, 2)
	g := NewProgGen(r.Fork(), o)
	n := r.Range(3, 8)
	sc := &C09Scenario{GlobalSeed: r.U64(), Cfg: cfg, StaleAt: -1}
	sc.Stmts = g.Stmts(n)
	// follow-ups deliberately use what was restored
	for i := 0; i < r.Range(1, 3); i++ {
		sc.Stmts = append(sc.Stmts, g.followUp(r))
	}
	if r.Chance(1, 4) && o.Stmts {
		// restored functions / computed values whose first use happens underneath another restored body
		sc.Stmts = append(sc.Stmts, Pick(r, []string{
			"func fact(n0) { if n0 <= 1 { return 1 }; return n0 * fact(n0 - 1) }; &fc = fact(this.n ?? 3) + d6; &fc.n = 4; 1",
			"func lp(n0) { i = 0; s = 0; while i < n0 { s = s + i; i = i + 1 }; return s }; &lc = lp(4) + 1; 2",
			"&tc = `a{% if 1 { 2 } %}b{d4}`; 3", "func em() { }; &ec = em() ?? 5; 4", "func ee() {}; 5", "func two(u, v, w) { return u * 100 + v * 10 + w }; &tw = two(1, 2, 3); 6",
			"func inner() { return 2d6 }; func outer() { return inner() + inner() }; &oc = outer(); 7", "&ca = 1; &cb = ca + 1; &cc = cb + ca; 8",
			"func crlf() { return `Hello,\r\nwelcome {1+1}` }; &crc = 'a\r\nb' + `c\r\n`; 9", "func tabs() { return 'x\ty' + `\r` + '\r\n' }; 10", "func cm() { return 1 // trailing comment\r\n }; 11",
		}))
		sc.Stmts = append(sc.Stmts, Pick(r, []string{"fc", "lc", "tc", "ec", "ee()", "em()", "tw", "oc + oc", "cc", "fact(3)", "lp(3)", "two(3,2,1)", "outer()", "crlf()", "crlf() + crc", "tabs()", "cm()"}))
	}
	if r.Chance(1, 5) {
		// values no snapshot can hold (the snapshot is refused), sometimes repaired in place afterwards:
		// the next snapshot must then succeed again
		type pair struct{ brk, fix string }
		pr := Pick(r, []pair{
			{"nz = -0.0; nzs = [nz, 0.0 * -1, {'z': -0.4 * 0}]; &nzc = this.z; &nzc.z = -0.0; nz", ""},
			{"tiny = 2.0 ^ -1074; big = 2.0 ^ 1023 * 1.9; edge = [2.0 ^ 63, -(2.0 ^ 63), 2.0 ^ 53 + 1, 0.1 + 0.2]; 1", ""},
			{"cyc = [1]; cyc.push(cyc); 1", "cyc.pop(); cyc"}, {"cyd = {'k':1}; cyd.me = cyd; 2", "cyd.me = 5; cyd"}, {"ff2 = 1.0 / 0", "ff2 = 2.5"},
			{"&cc = 1; &cc.me = cc; 3", "&cc.me = 4; cc"}, {"nn = 2 ^ 9999.5", "nn = 3"}, {"inf2 = 10.0 ^ 400", "inf2 = [inf2 > 1]"},
			{"sheet = {'items': [1, 2]}; sheet.items.push(sheet); 1", "sheet.items.pop(); sheet"}, {"bag = {'coins': [1, 10.0 ^ 400, 3]}; 2", "bag.coins[1] = 4; bag"},
			{"&atk = (this.base ?? 0) + d4; &atk.base = 10.0 ^ 5000; 3", "&atk.base = 3; atk"}, {"deep = [[[[1]]]]; deep[0][0][0].push(deep); 4", "deep[0][0][0].pop(); deep"},
		})
		sc.Stmts = append(sc.Stmts, pr.brk)
		if pr.fix != "" && r.Chance(2, 3) {
			if r.Bool() {
				sc.Stmts = append(sc.Stmts, g.followUp(r))
			}
			sc.Stmts = append(sc.Stmts, pr.fix)
		}
		sc.Stmts = append(sc.Stmts, g.followUp(r))
	}
	if r.Chance(1, 5) {
		// bodies spelled like a dice family's syntax, defined without a macro, later USED inside an
		// input that carries a macro, then used again without one: what the text means is fixed by the
		// VM's own flags, in the original and in the restored VM alike
		type famBody struct{ setup, macro, use string }
		fb := Pick(r, []famBody{
			{"b2 = 7; p1 = 3; func famf() { return b2 + p1 }", "coc", "famf()"}, {"b2 = 7; &famc = b2 + 1", "coc", "famc"},
			{"f = 3; func famf() { return f + 1 }", "fate", "famf()"}, {"f = 3; &famc = f * 2", "fate", "famc + 1"},
			{"b1 = 2; func famf(n0) { return b1 + n0 }; &famc = famf(1)", "coc", "famc + famf(2)"},
		})
		at := r.Intn(len(sc.Stmts) + 1)
		rest := append([]string{fb.setup}, sc.Stmts[at:]...)
		sc.Stmts = append(append([]string{}, sc.Stmts[:at]...), rest...)
		sc.Stmts = append(sc.Stmts, "// #EnableDice "+fb.macro+" "+Pick(r, []string{"true", "true", "false"})+"\n"+fb.use, fb.use, "// #EnableDice "+fb.macro+" true\n"+fb.use+" + 1")
	}
	if r.Chance(1, 4) && o.Containers {
		// keys that need escaping in JSON, of many lengths, repeated in sibling values
		k := Pick(r, []string{"R&D <budget> ", "<em>HP</em>", "a&b", "<<>>", "q\"uote<", "tab\t&"}) + strings.Repeat(Pick(r, []string{"x", "é", "&", "_"}), r.Range(0, 40))
		k = strings.ReplaceAll(k, "'", "")
		sc.Stmts = append(sc.Stmts, "kd = {'"+k+"': "+strconv.Itoa(r.Range(0, 9))+", 'zbackup': {'"+k+"': "+strconv.Itoa(r.Range(0, 99))+"}, 'zold': [{'"+k+"': "+strconv.Itoa(r.Range(0, 9))+"}, {'"+k+"': 1}]}; kd", "kd['"+k+"']")
	}
	if r.Chance(1, 6) {
		sc.StaleAt = r.Intn(len(sc.Stmts))
	}
	return sc
}

// followUp returns a statement that uses existing variables in ways that exercise restored values.
func (g *ProgGen) followUp(r *Rng) string {
	var opts []string
	for _, f := range g.fns {
		args := make([]string, f.arity)
		for i := range args {
			args[i] = g.lit()
		}
		opts = append(opts, f.name+"("+strings.Join(args, ",")+")")
	}
	for _, c := range g.comps {
		opts = append(opts, c, c+" + "+c, "&"+c+".bonus = 3", "&"+c+".bonus ?? 0", c+".compute()")
	}
	for _, a := range g.arrs {
		opts = append(opts, a+"[0] = 42", a+".push(7)", a+".len()", a+" + [1]", a+"[0:1]", a,
			a+".push(3); b9 = "+a+" + [4]; c9 = "+a+" + [5]; b9", a+".pop(); b9 = "+a+" + [7]; "+a+".push(9); b9", "b9 = "+a+" + [4]; b9[0] = 99; "+a)
	}
	for _, d := range g.dicts {
		opts = append(opts, d+".k = 5", d+"['hp']", d+".len()", d+".keys().len()", d, d+" == "+d)
	}
	for _, s := range g.strs {
		opts = append(opts, s+" + '!'", s+"[0:1]", "`{"+s+"}`")
	}
	for _, i := range g.ints {
		opts = append(opts, i+" = "+i+" + 1", i+" * 2", i)
	}
	if len(opts) == 0 {
		return g.simpleStmt()
	}
	return Pick(r, opts)
}

type snapshot struct {
	attrs   []byte
	err     error
	seed    []byte
	canon   string
	aliased bool
	exotic  string // why ToJSON may legitimately fail ("" = it must succeed)
	unpatched string // a jump without offset in a compiled body held by the variables (C08's open finding)
}

// scanAttrs finds aliasing (one container reachable twice), cycles and non-finite floats.
func scanAttrs(m *ds.ValueMap) (aliased bool, exotic string) {
	seen := map[any]int{}
	var walk func(v *ds.VMValue, path map[any]bool, depth int)
	walk = func(v *ds.VMValue, path map[any]bool, depth int) {
		if v == nil || depth > 100 {
			return
		}
		switch d := v.Value.(type) {
		case float64:
			if math.IsNaN(d) || math.IsInf(d, 0) {
				exotic = "non-finite float"
			}
		case *ds.ArrayData:
			if d == nil {
				return
			}
			if path[d] {
				exotic = "reference cycle"
				return
			}
			seen[d]++
			if seen[d] > 1 {
				aliased = true
				return
			}
			path[d] = true
			for _, e := range d.List {
				walk(e, path, depth+1)
			}
			delete(path, d)
		case *ds.DictData:
			if d == nil || d.Dict == nil {
				return
			}
			if path[d] {
				exotic = "reference cycle"
				return
			}
			seen[d]++
			if seen[d] > 1 {
				aliased = true
				return
			}
			path[d] = true
			d.Dict.Range(func(k string, e *ds.VMValue) bool { walk(e, path, depth+1); return true })
			delete(path, d)
		case *ds.ComputedData:
			if d == nil {
				return
			}
			if path[d] {
				exotic = "reference cycle"
				return
			}
			seen[d]++
			if seen[d] > 1 {
				aliased = true
				return
			}
			if d.Attrs != nil {
				path[d] = true
				d.Attrs.Range(func(k string, e *ds.VMValue) bool { walk(e, path, depth+1); return true })
				delete(path, d)
			}
		case *ds.FunctionData:
			if d != nil && d.Self != nil {
				exotic = "bound method"
			}
		case *ds.NativeFunctionData:
			if d != nil && d.Self != nil {
				exotic = "bound method"
			}
		case *ds.NativeObjectData:
			exotic = "native object"
		}
	}
	m.Range(func(k string, v *ds.VMValue) bool { walk(v, map[any]bool{}, 0); return true })
	return
}

func takeSnapshot(vm *ds.Context) snapshot {
	var s snapshot
	s.aliased, s.exotic = scanAttrs(vm.Attrs)
	p, _, _, sig, msg := Guard(func() { s.attrs, s.err = vm.Attrs.ToJSON() })
	if p {
		s.err = fmt.Errorf("PANIC %s: %s", sig, msg)
	}
	s.seed, _ = vm.GetCurSeed()
	s.canon = CanonMap(vm.Attrs)
	s.unpatched = unpatchedJumpInBodies(vm.Attrs)
	return s
}

func restoreVM(cfg CfgSpec, s snapshot) (*ds.Context, error) {
	vm := cfg.NewVMFromSeed(s.seed)
	m := &ds.ValueMap{}
	if err := json.Unmarshal(s.attrs, m); err != nil {
		return nil, err
	}
	vm.Attrs = m
	return vm, nil
}

func c09Exec(raw json.RawMessage, res *RunResult) {
	var sc C09Scenario
	if err := json.Unmarshal(raw, &sc); err != nil {
		res.Violate("harness-scenario", "bad scenario: %v", err)
		return
	}
	dg := &Digest{}
	ds.VerifSortedRange = false // Range is sorted by the library itself since the C06 fix; the real loop runs
	m := &Meter{Budget: 400_000, HugeLimit: 4 << 20}
	m.Install()
	defer Uninstall()
	n := len(sc.Stmts)

	// the run that never crashes, snapshotting after every statement
	ResetGlobals(sc.GlobalSeed)
	u := sc.Cfg.NewVM()
	ref := make([]*Outcome, n)
	snaps := make([]snapshot, n+1)
	snaps[0] = takeSnapshot(u)
	usable := n
	for i, st := range sc.Stmts {
		m.Reset()
		ref[i] = DoCmd(u, Cmd{Kind: "run", Src: st})
		res.Evals++
		res.Ticks += m.Ticks
		snaps[i+1] = takeSnapshot(u)
		dg.Add("ref", st, ref[i].Key())
		if m.Cancelled || strings.HasPrefix(ref[i].Attrs, "<huge") {
			usable = i // resource trouble is C01/C07's subject; stop the scenario here
			break
		}
	}
	sc.Stmts = sc.Stmts[:usable]
	n = usable
	if n == 0 {
		res.Digest = dg.Hex()
		return
	}

	// snapshot oracles
	for p := 0; p <= n; p++ {
		s := snaps[p]
		if s.err != nil {
			res.Probe("tojson_error")
			if strings.HasPrefix(s.err.Error(), "PANIC") {
				res.Violate("tojson-panic", "Attrs.ToJSON panicked after statement %d: %v\n  stmts=%q", p, s.err, sc.Stmts[:p])
			} else if s.exotic == "" {
				res.Violate("tojson-error-on-representable", "Attrs.ToJSON failed after statement %d although the variables hold no cycle, non-finite float, bound method or native object: %v\n  vars=%s\n  stmts=%q", p, s.err, trunc(s.canon, 400), sc.Stmts[:p])
			}
			continue
		}
		if s.exotic == "reference cycle" || s.exotic == "non-finite float" {
			res.Violate("tojson-silent-on-unrepresentable", "Attrs.ToJSON succeeded after statement %d although the variables hold a %s\n  json=%s\n  stmts=%q", p, s.exotic, trunc(string(s.attrs), 300), sc.Stmts[:p])
			continue
		}
		// structural round trip
		back := &ds.ValueMap{}
		var derr error
		pp, _, _, sig, msg := Guard(func() { derr = json.Unmarshal(s.attrs, back) })
		if pp {
			res.Violate("fromjson-panic", "decoding a snapshot panicked (%s: %s)\n  json=%s", sig, msg, trunc(string(s.attrs), 300))
			continue
		}
		if derr != nil {
			res.Violate("roundtrip-decode-error", "a snapshot written by ToJSON does not decode: %v\n  json=%s\n  stmts=%q", derr, trunc(string(s.attrs), 400), sc.Stmts[:p])
			continue
		}
		if c := CanonMap(back); c != s.canon && s.exotic == "" {
			res.Violate("roundtrip-mismatch", "variables differ after ToJSON -> UnmarshalJSON (after statement %d)\n  before=%s\n  after= %s\n  json=%s\n  stmts=%q", p, trunc(s.canon, 500), trunc(c, 500), trunc(string(s.attrs), 400), sc.Stmts[:p])
		}
		res.State(HashStr(shapeOfJSON(s.attrs)))
	}

	// crash-point enumeration
	compared := 0
	for p := 0; p < n; p++ {
		from := p
		if sc.StaleAt == p && p > 0 {
			from = p - 1 // lost write: the older snapshot is what survives; statement p is re-executed
			res.Fault("stale_snapshot")
		}
		s := snaps[from]
		if s.err != nil || s.exotic != "" {
			res.Probe("crash_point_skipped_unrepresentable")
			continue
		}
		if s.aliased {
			// JSON cannot carry aliasing between variables: skipped and counted, not compared
			res.Probe("crash_point_skipped_aliasing")
			continue
		}
		ResetGlobals(sc.GlobalSeed ^ uint64(p+1)) // the restarted process has other global generators
		b, err := restoreVM(sc.Cfg, s)
		if err != nil {
			continue // reported above
		}
		res.Fault("crash_restart")
		for i := from; i < n; i++ {
			m.Reset()
			o := DoCmd(b, Cmd{Kind: "run", Src: sc.Stmts[i]})
			res.Evals++
			res.Ticks += m.Ticks
			compared++
			// once the uncrashed run has created aliasing or exotic values, later outcomes may differ legitimately
			if snaps[i+1].aliased || snaps[i].aliased {
				res.Probe("comparison_stopped_aliasing")
				break
			}
			if strings.Contains(ref[i].Err, "算力") || strings.Contains(o.Err, "算力") {
				// a budget error: op counts of cached and lazily compiled bodies differ by the final
				// halt instruction, so which side crosses the limit first is not part of this property
				res.Probe("comparison_stopped_budget_error")
				break
			}
			// the operation counter is internal accounting (a lazily compiled body ends in one more
			// instruction than a precompiled one): not part of "behaves like the original"
			oc := *o
			oc.NumOp = ref[i].NumOp
			if oc.NumOp != o.NumOp {
				res.Probe("opcount_differs_after_restore")
			}
			if f := DiffOutcome(ref[i], &oc); f != "" {
				if j := abandonedTailDefinition(sc.Stmts, ref, i); j >= 0 {
					// a definition whose statement the parser left early, inside '||' / '&&' / '?': the code of the
					// abandoned alternative stays in the body compiled at definition time (C08's open finding), the
					// stored text ends where the parser stopped. Its own signature.
					res.Violate("restore-mismatch:definition-with-abandoned-tail", "statement %d differs in %s: statement %d defined a function / computed value and the parser stopped inside it (rest %q): the body compiled at definition time contains code of the abandoned alternative, the VM restored from JSON after statement %d recompiled the stored text\n  defining stmt=%q\n  stmt=%q\n  uncrashed: %s\n  restored:  %s", i+1, f, j+1, trunc(ref[j].Rest, 40), from, sc.Stmts[j], sc.Stmts[i], ref[i].Short(), o.Short())
					break
				}
				if op := snaps[i].unpatched + snaps[i+1].unpatched; op != "" {
					// the uncrashed VM holds a body compiled with a jump that never got its offset (C08's open
					// finding: code left behind by an abandoned '||' / '&&' / '?' alternative); the restored VM
					// recompiled the body from its text. Its own signature.
					res.Violate("restore-mismatch:original-body-has-unpatched-jump", "statement %d differs in %s: the VM that never crashed executes a precompiled body containing an unpatched %s, the VM restored from JSON after statement %d recompiled the body from its text\n  stmt=%q\n  uncrashed: %s\n  restored:  %s\n  script=%q", i+1, f, op, from, sc.Stmts[i], ref[i].Short(), o.Short(), sc.Stmts)
					break
				}
				if strings.Contains(ref[i].Err, "VM内部错误") && !strings.Contains(oc.Err, "VM内部错误") {
					// the original VM executed malformed precompiled code (C08's subject); the restored VM
					// recompiled the body from its text and works: its own signature
					res.Violate("restore-mismatch:internal-error-on-original-only", "statement %d fails with a VM internal error on the VM that never crashed (its precompiled body is malformed) but works on the VM restored from JSON after statement %d (body recompiled from text)\n  stmt=%q\n  uncrashed: %s\n  restored:  %s\n  script=%q", i+1, from, sc.Stmts[i], ref[i].Short(), o.Short(), sc.Stmts)
					break
				}
				kind := "restore-mismatch:"
				if macroAroundDefinition(sc.Stmts) {
					// parse-time flags set by a macro are not part of a function's or computed value's stored
					// text: its own signature (an open finding)
					kind = "restore-mismatch-with-macro-in-script:"
				}
				res.Violate(kind+f, "after a crash following statement %d and a restore from JSON, statement %d differs in %s from the run that never crashed\n  stmt=%q\n  uncrashed: %s\n  restored:  %s\n  script=%q", from, i+1, f, sc.Stmts[i], ref[i].Short(), o.Short(), sc.Stmts)
				break
			}
		}
	}
	res.ProbeN("statements_compared_after_restore", compared)
	res.Digest = dg.Hex()
	res.Nontrivial = compared >= 3
	res.CaseKey = HashStr(strings.Join(sc.Stmts, "\x00"))
	_ = hex.EncodeToString
}

// abandonedTailDefinition returns the index of a statement up to i that defines a function or computed
// value, uses '||' / '&&' / '?', and was not consumed to its end by the parser (-1 if none).
func abandonedTailDefinition(stmts []string, ref []*Outcome, i int) int {
	for j := 0; j <= i && j < len(stmts); j++ {
		if ref[j] == nil || ref[j].Err != "" || strings.TrimSpace(ref[j].Rest) == "" {
			continue
		}
		st := stmts[j]
		if (strings.Contains(st, "&") || strings.Contains(st, "func ")) && (strings.Contains(st, "||") || strings.Contains(st, "&&") || strings.Contains(st, "?")) {
			return j
		}
	}
	return -1
}

// macroAroundDefinition: some statement carries a flag macro AND defines a function or computed
// value (the open finding: such a body is compiled under the macro's flags, its stored text does not
// carry them). A macro around a mere use of a value defined elsewhere does not qualify.
func macroAroundDefinition(stmts []string) bool {
	for _, st := range stmts {
		if strings.Contains(st, "#EnableDice") && (strings.Contains(st, "func ") || strings.Contains(st, "&")) {
			return true
		}
	}
	return false
}

// unpatchedJumpInBodies returns the name of a jump instruction without offset found in the compiled
// body of a function / computed value reachable from the variables ("" if none).
func unpatchedJumpInBodies(m *ds.ValueMap) string {
	found := ""
	seen := map[any]bool{}
	var walk func(v *ds.VMValue, depth int)
	walk = func(v *ds.VMValue, depth int) {
		if v == nil || found != "" || depth > 50 {
			return
		}
		if ops, ok := ds.VerifBodies(v); ok {
			for _, op := range ops {
				switch op.Name {
				case "jne", "je", "je.dup", "jmp":
					if op.Value == nil {
						found = op.Name
						return
					}
				}
			}
		}
		switch d := v.Value.(type) {
		case *ds.ArrayData:
			if d == nil || seen[d] {
				return
			}
			seen[d] = true
			for _, e := range d.List {
				walk(e, depth+1)
			}
		case *ds.DictData:
			if d == nil || d.Dict == nil || seen[d] {
				return
			}
			seen[d] = true
			d.Dict.Range(func(_ string, e *ds.VMValue) bool { walk(e, depth+1); return found == "" })
		case *ds.ComputedData:
			if d == nil || d.Attrs == nil || seen[d] {
				return
			}
			seen[d] = true
			d.Attrs.Range(func(_ string, e *ds.VMValue) bool { walk(e, depth+1); return found == "" })
		}
	}
	if m != nil {
		m.Range(func(_ string, e *ds.VMValue) bool { walk(e, 0); return found == "" })
	}
	return found
}

// shapeOfJSON abstracts a snapshot to its tree of type tags (distinct-state measure).
func shapeOfJSON(b []byte) string {
	var sb strings.Builder
	s := string(b)
	for i := 0; i+4 < len(s); i++ {
		if s[i:i+4] == `"t":` {
			j := i + 4
			for j < len(s) && s[j] >= '0' && s[j] <= '9' {
				sb.WriteByte(s[j])
				j++
			}
			sb.WriteByte(',')
		}
	}
	return sb.String()
}

func c09Shrink(raw json.RawMessage) []json.RawMessage {
	var sc C09Scenario
	if json.Unmarshal(raw, &sc) != nil {
		return nil
	}
	var out []json.RawMessage
	emit := func(f func(s *C09Scenario)) {
		var c C09Scenario
		json.Unmarshal(raw, &c)
		f(&c)
		out = append(out, MustJSON(&c))
	}
	n := len(sc.Stmts)
	if sc.StaleAt >= 0 {
		emit(func(s *C09Scenario) { s.StaleAt = -1 })
	}
	for i := 0; i < n; i++ {
		i := i
		emit(func(s *C09Scenario) {
			s.Stmts = append(append([]string{}, s.Stmts[:i]...), s.Stmts[i+1:]...)
			s.StaleAt = -1
		})
	}
	def := CfgSpec{WoD: true, CoC: true, Fate: true, DC: true, Seeded: true, SeedA: 1, SeedB: 2, OpLimit: 30000}
	if sc.Cfg != def {
		emit(func(s *C09Scenario) { s.Cfg = def })
	}
	for i, st := range sc.Stmts {
		i := i
		cands := shrinkText(st)
		if len(cands) > 16 {
			cands = cands[:16]
		}
		for _, t := range cands {
			t := t
			emit(func(s *C09Scenario) { s.Stmts[i] = t })
		}
	}
	return out
}

func init() {
	Register(&Check{
		ID: "C09", Level: "fault_enumeration",
		QuickRuns: 10000, ThoroughRuns: 300000,
		Gen: c09Gen, Exec: c09Exec, Shrink: c09Shrink,
		Rule: "one case = one generated session of 4-12 statements (ints, floats incl. negative zero / subnormal / beyond-int64 / shortest-form corner cases, strings, arrays, dicts, functions, computed values with attributes, macros around definitions, follow-ups that call restored functions, load restored computed values, index and mutate restored containers; sometimes a cycle or a non-finite float). The host snapshots {Attrs.ToJSON, GetCurSeed} after every statement; EVERY crash point p is enumerated: a fresh VM is restored from snapshot p (or, fault 'lost write', p-1) and statements p+1..n are replayed and compared field by field (value, error, detail, matched/rest, op count, generator bytes, variables) with the run that never crashed. Every snapshot is also checked for structural round trip and for error-on-unrepresentable. distinct = distinct statement lists; non-trivial = at least 3 statements were compared after a restore",
		Real: []string{"dicescript VM, ToJSON/UnmarshalJSON of values and variable maps, lazy compilation of restored functions/computed values"},
		Stub: []string{"disk (bytes kept in memory), process restart (VM discarded and rebuilt from durable bytes)", "dict iteration order fixed by the sorted-Range seam"},
		Assumptions: []string{"JSON cannot carry aliasing between two variables: states in which the harness detects aliasing are skipped and counted", "bound methods and native objects are outside the property's list of values"},
	})
}
