package sim

import (
	"encoding/json"
	"errors"
	"regexp"
	"strings"

	ds "github.com/sealdice/dicescript"
)

// C17 — extension points are transparent unless they act. The host callbacks are the seams:
// twin sessions with and without inert extensions must agree; an acting custom syntax is called
// exactly once per evaluation of its operand with exactly the matched text and groups, its value
// is used by copy, and handler faults (error, nil value, stream parser error) surface as errors.

type C17Scenario struct {
	GlobalSeed uint64
	Cfg        CfgSpec
	Acting     HostSpec // extensions both twins have (the acting custom operator, st log)
	Inert      HostSpec // extensions only the second twin has
	Cmds       []Cmd
	StreamFail bool // a stream parser that fails with an error on the token QQ
}

func c17Gen(seed uint64, tier string) any {
	r := NewRng(seed)
	cfg := GenCfg(r).Tame()
	cfg.Seeded = true
	cfg.OpLimit = 30000
	sc := &C17Scenario{GlobalSeed: r.U64(), Cfg: cfg}
	o := SwarmOpts(r, cfg)
	o.BrokenTail = Pick(r, []int{0, 0, 200})
	o.BigNums = false
	o.Computed, o.Containers = true, true
	if r.Chance(2, 3) {
		sc.Acting = HostSpec{Custom: true, CustomTok: "XX", HandlerPlan: strings.Repeat("v", 64), StLog: true}
		if r.Chance(1, 3) {
			sc.Acting.HandlerPlan = randPlanFaulty(r, 24)
		}
		o.CustomTok = "XX"
	}
	sc.Inert = HostSpec{
		NeverRegex: r.Bool(), NeverStream: r.Intn(4), StreamDigits: r.Bool(), StreamExpr: r.Chance(1, 3),
		IdentityLoadPre: r.Bool(), IdentityLoadPost: r.Bool(), IdentityStore: r.Bool(), IdentityOverwrite: r.Bool(),
		IdentityDetail: r.Bool(), IdentitySpan: r.Bool(),
	}
	sc.StreamFail = r.Chance(1, 8)
	if r.Chance(1, 3) {
		sc.Acting.StreamCustom = true
	}
	g := NewProgGen(r.Fork(), o)
	n := r.Range(2, 6)
	for i := 0; i < n; i++ {
		src := g.Program(r.Range(1, 4))
		if o.CustomTok != "" && r.Chance(1, 3) {
			src = Pick(r, []string{
				"i=0; s=0; while i<3 { s = s + XX5; i=i+1 }; s", "func ff(p) { return p + XX3 }; ff(1) + ff(2)", "&cv = XX7 + 1; cv + cv", "[XX1, XX2, XX3].sum()",
				"`a{XX4}b{XX4}`", "XX2 + XX2 * XX2", "XX9 ? XX1 : XX2", "x = XX6; x", "(XX3)d(XX2)", "XX12+1", "1+XX0", "xs=[1,2,3]; xs[XX1]",
			})
		}
		if sc.Acting.StreamCustom && r.Chance(1, 2) {
			src = Pick(r, []string{
				"RR3 + RR4", "RR3 * 2 + RR5 + 1", "func ff(n0) { return RR5 + n0 }; ff(1) + ff(2) + RR1", "&cv = RR2 + 1; cv + RR7", "i=0; s=0; while i<3 { s = s + RR6; i=i+1 }; s + RR2",
				"RR9", "1 + RR8", "RR1 + RR2 + RR3 + RR4", "`{RR4}-{RR5}`", "x = RR3; y = RR4; x * 10 + y", "RR12 - RR2 * RR3", "RR7 ? RR1 : RR2",
			})
			if sc.Acting.Custom && r.Bool() {
				src += " + XX3"
			}
		}
		if sc.Inert.NeverRegex && r.Chance(1, 4) {
			// identifiers and numbers that contain what a never-matching pattern's later alternative spells
			src = Pick(r, []string{"xZZb7 = 3; xZZb7 + 1", "1 + qZZb2", "abcZZb3 ?? 5", "12ZZb3", "vZZa1 = 2; vZZa1 * vZZa1", "func fZZb9() { return 4 }; fZZb9()", "`{nZZb1 ?? 'none'}`"})
		}
		if r.Chance(1, 6) {
			// names that exist in an inner frame with a null value and mean something further out
			src = Pick(r, []string{"s = '  hi  '; &al = s; al", "s2 = 'line\n'; &a2 = s2; a2 + 'x'", "pad = ' 7 '; &ap = pad; &aq = ap; aq + ap", "t3 = '\tx'; &at = t3; `{at}`",
				"x = 7; func shf(x) { return x }; shf(null)", "func shb(abs) { return abs }; typeId(shb(null))", "y = 3; func shg(y) { func inner() { return y }; return inner() }; shg(null) ?? 9",
				"g1 = 5; &shc = g1; func shh(g1) { return shc + (g1 ?? 1) }; shh(null)", "func shi(len0) { len0 = null; return len0 ?? 2 }; shi(4)", "z = [1,2]; func shj(z) { return z ?? 'none' }; shj(null)"})
		}
		if sc.StreamFail && r.Chance(1, 3) {
			src = Pick(r, []string{"QQ7", "1 + QQ2", "x = 3; QQ", g.Int() + " + QQ1"})
		}
		sc.Cmds = append(sc.Cmds, Cmd{Kind: "run", Src: src})
	}
	return sc
}

func merge(a, b HostSpec) HostSpec {
	m := a
	m.NeverRegex, m.NeverStream, m.StreamDigits, m.StreamExpr = b.NeverRegex, b.NeverStream, b.StreamDigits, b.StreamExpr
	m.IdentityLoadPre, m.IdentityLoadPost, m.IdentityStore, m.IdentityOverwrite = b.IdentityLoadPre, b.IdentityLoadPost, b.IdentityStore, b.IdentityOverwrite
	m.IdentityDetail, m.IdentitySpan = b.IdentityDetail, b.IdentitySpan
	return m
}

var reTok = regexp.MustCompile(`^XX(\d+)$`)

type c17World struct {
	out        []*Outcome
	host       *Host
	customOps  []int64 // per command: executed dice.custom instructions
	calls      []int   // per command: handler invocations (all acting syntaxes)
	planCalls  []int   // per command: invocations of the regex operator (the one with a behaviour plan)
	planAt     []int
	copyBroken string
}

func installStreamFail(vm *ds.Context) {
	_ = vm.RegCustomDiceParser(func(ctx *ds.Context, st *ds.CustomDiceStream) (*ds.CustomDiceParseResult, error) {
		a, ok1 := st.Read()
		b, ok2 := st.Read()
		if ok1 && ok2 && a == 'Q' && b == 'Q' {
			return nil, errors.New("host: stream parser failed")
		}
		return &ds.CustomDiceParseResult{Matched: false}, nil
	}, func(ctx *ds.Context, groups []string, payload any) (*ds.VMValue, string, error) {
		return ds.NewIntVal(0), "", nil
	})
}

func c17Run(sc *C17Scenario, spec HostSpec, m *Meter, res *RunResult, mutateReturned bool) *c17World {
	w := &c17World{}
	ResetGlobals(sc.GlobalSeed)
	vm := sc.Cfg.NewVM()
	w.host = NewHost(spec, m)
	// inert extensions are registered first: they get the first look at every operand
	w.host.Install(vm)
	if sc.StreamFail {
		installStreamFail(vm)
	}
	for _, c := range sc.Cmds {
		m.Reset()
		m.Budget = 300_000
		var customOps int64
		m.OnStep = func(s *ds.VerifStep) bool {
			if ds.VerifOpName(s.Code) == "dice.custom" {
				customOps++
			}
			return false
		}
		before := len(w.host.Calls)
		planBefore := w.host.handlerN
		w.planAt = append(w.planAt, w.host.handlerN)
		o := DoCmd(vm, c)
		m.OnStep = nil
		res.Evals++
		res.Ticks += m.Ticks
		if mutateReturned && o.Err == "" && o.Panic == "" {
			// "its returned value is used by copy": scribbling on what the handler returned must not
			// change anything the VM holds
			for _, v := range w.host.Returned {
				v.TypeId = ds.VMTypeString
				v.Value = "scribbled by host"
			}
			after := &Outcome{Kind: c.Kind}
			Observe(vm, after, true)
			if after.Ret != o.Ret || after.Attrs != o.Attrs {
				w.copyBroken = "after the host modified the value object its handler had returned, the VM's result/variables changed: " + o.Ret + " -> " + after.Ret + " ; " + trunc(o.Attrs, 200) + " -> " + trunc(after.Attrs, 200)
			} else if after.Detail != o.Detail && after.Panic == "" {
				w.copyBroken = "after the host modified the value object its handler had returned, the VM's process text changed: " + trunc(o.Detail, 200) + " -> " + trunc(after.Detail, 200)
			}
		}
		w.host.Returned = nil
		w.out = append(w.out, o)
		w.customOps = append(w.customOps, customOps)
		w.calls = append(w.calls, len(w.host.Calls)-before)
		w.planCalls = append(w.planCalls, w.host.handlerN-planBefore)
	}
	return w
}

func c17Exec(raw json.RawMessage, res *RunResult) {
	var sc C17Scenario
	if err := json.Unmarshal(raw, &sc); err != nil {
		res.Violate("harness-scenario", "bad scenario: %v", err)
		return
	}
	dg := &Digest{}
	ds.VerifSortedRange = false // Range is sorted by the library itself since the C06 fix; the real loop runs
	m := &Meter{HugeLimit: 4 << 20}
	m.Install()
	defer Uninstall()

	a := c17Run(&sc, sc.Acting, m, res, true)
	b := c17Run(&sc, merge(sc.Acting, sc.Inert), m, res, false)
	for k, v := range b.host.Fired {
		res.FaultN(k, v)
	}
	if sc.Acting.Custom {
		// twin: the same callback returning one refilled object instead of a fresh one per call
		reuse := sc.Acting
		reuse.ReuseResult = true
		c := c17Run(&sc, reuse, m, res, false)
		res.FaultN("callback_reuses_result_object", c.host.Fired["callback_reuses_result_object"])
		for i, cmd := range sc.Cmds {
			if f := DiffOutcome(a.out[i], c.out[i]); f != "" {
				res.Violate("handler-value-not-copied:"+f, "command %d differs in %s when the custom-dice callback refills and returns one value object instead of allocating a new one per call: a returned value is not used by copy\n  src=%q\n  fresh objects: %s\n  one object:    %s", i, f, cmd.Src, a.out[i].Short(), c.out[i].Short())
				break
			}
		}
	}
	var key []string
	for i, c := range sc.Cmds {
		key = append(key, c.Src)
		dg.Add("cmd", c.Src, a.out[i].Key())
		// twin: inert extensions change nothing
		if f := DiffOutcome(a.out[i], b.out[i]); f != "" {
			res.Violate("inert-extension-changes:"+f, "command %d differs in %s once never-matching custom syntaxes / pass-through hooks / identity detail rewriters are installed\n  src=%q\n  without: %s\n  with:    %s\n  inert=%+v", i, f, c.Src, a.out[i].Short(), b.out[i].Short(), sc.Inert)
			break
		}
	}
	for _, inv := range b.host.Calls {
		if strings.HasPrefix(inv.What, "never") {
			res.Violate("never-matching-handler-called", "the handler of a custom syntax that cannot match was invoked: %s %v", inv.What, inv.Groups)
		}
	}
	// acting operator: exactly once per evaluation, exact text and groups, errors surface
	if sc.Acting.Custom {
		for i, c := range sc.Cmds {
			o := a.out[i]
			if o.Panic != "" {
				continue
			}
			if int64(a.calls[i]) != a.customOps[i] {
				res.Violate("handler-call-count", "command %d executed the custom-dice instruction %d times but the handler ran %d times\n  src=%q", i, a.customOps[i], a.calls[i], c.Src)
			}
			// faults planned for the calls of this command
			plan := sc.Acting.HandlerPlan
			wantErr := ""
			for k := 0; k < a.planCalls[i]; k++ {
				idx := a.planAt[i] + k
				if idx < len(plan) {
					switch plan[idx] {
					case 'e':
						wantErr = "host: handler failed"
					case 'n':
						wantErr = "nil"
					case 'p':
						wantErr = "VM内部错误"
					}
				}
				if wantErr != "" {
					break
				}
			}
			if wantErr != "" {
				res.Fault("callback_fault_landed")
				if o.Err == "" {
					res.Violate("handler-fault-swallowed", "the handler failed (%s) during command %d, but the evaluation returned a value: %s\n  src=%q", wantErr, i, o.Short(), c.Src)
				} else if !strings.Contains(o.Err, wantErr) && !strings.Contains(o.Err, "nil") {
					res.Probe("handler_fault_other_error_text")
				}
			}
		}
		for _, inv := range a.host.Calls {
			if inv.What != "custom" {
				continue
			}
			ok := len(inv.Groups) == 2 && reTok.MatchString(inv.Groups[0]) && inv.Groups[0] == "XX"+inv.Groups[1]
			if ok {
				found := false
				for _, c := range sc.Cmds {
					if strings.Contains(c.Src, inv.Groups[0]) {
						found = true
					}
				}
				ok = found
			}
			if !ok {
				res.Violate("handler-groups", "the handler received groups %q: not the matched text and its capture of an operand in the source", inv.Groups)
				break
			}
		}
		if a.copyBroken != "" {
			res.Violate("handler-value-not-copied", "%s", a.copyBroken)
		}
		res.ProbeN("handler_calls", len(a.host.Calls))
	}
	if sc.Acting.StreamCustom {
		reRR := regexp.MustCompile(`^RR(\d+)$`)
		nStream := 0
		for _, inv := range a.host.Calls {
			if inv.What != "stream-custom" {
				continue
			}
			nStream++
			ok := len(inv.Groups) == 2 && reRR.MatchString(inv.Groups[0]) && inv.Groups[0] == "RR"+inv.Groups[1]
			if ok {
				found := false
				for _, c := range sc.Cmds {
					if strings.Contains(c.Src, inv.Groups[0]) {
						found = true
					}
				}
				ok = found
			}
			if !ok {
				res.Violate("handler-groups", "the handler of the stream syntax received groups %q: not the matched text and its digits of an operand in the source", inv.Groups)
				break
			}
		}
		res.ProbeN("stream_handler_calls", nStream)
		// every RR<n> evaluates to n: with a value handler and no other faults the results are computable
		for i, c := range sc.Cmds {
			if want, ok := rrExpected(c.Src); ok && a.out[i].Err == "" && a.out[i].Panic == "" && strings.TrimSpace(a.out[i].Rest) == "" {
				if a.out[i].Ret != want {
					res.Violate("stream-custom-wrong-operand", "%q: every RR<n> stands for n, so the result must be %s, got %s (handler log: %s)", c.Src, want, a.out[i].Ret, trunc(a.host.CallLog(), 300))
				}
			}
		}
	}
	if sc.StreamFail {
		for i, c := range sc.Cmds {
			if strings.Contains(c.Src, "QQ") && a.out[i].Panic == "" && a.out[i].Err == "" && strings.Contains(a.out[i].Matched, "QQ") {
				res.Violate("stream-parser-error-swallowed", "a stream parser returned an error for %q but the command succeeded: %s", c.Src, a.out[i].Short())
			}
		}
	}
	res.Digest = dg.Hex()
	res.Nontrivial = len(sc.Cmds) >= 2
	res.CaseKey = HashStr(strings.Join(key, "\x00"))
	res.State(HashStr(string(MustJSON(sc.Inert))))
}

func c17Shrink(raw json.RawMessage) []json.RawMessage {
	var sc C17Scenario
	if json.Unmarshal(raw, &sc) != nil {
		return nil
	}
	var out []json.RawMessage
	emit := func(f func(s *C17Scenario)) {
		var c C17Scenario
		json.Unmarshal(raw, &c)
		f(&c)
		out = append(out, MustJSON(&c))
	}
	for i := range sc.Cmds {
		i := i
		if len(sc.Cmds) > 1 {
			emit(func(s *C17Scenario) { s.Cmds = append(append([]Cmd{}, s.Cmds[:i]...), s.Cmds[i+1:]...) })
		}
	}
	in := sc.Inert
	if in.NeverRegex {
		emit(func(s *C17Scenario) { s.Inert.NeverRegex = false })
	}
	if in.NeverStream > 0 {
		emit(func(s *C17Scenario) { s.Inert.NeverStream = 0 })
		emit(func(s *C17Scenario) { s.Inert.StreamDigits, s.Inert.StreamExpr = false, false })
	}
	for _, f := range []func(s *C17Scenario){
		func(s *C17Scenario) { s.Inert.IdentityLoadPre = false },
		func(s *C17Scenario) { s.Inert.IdentityLoadPost = false },
		func(s *C17Scenario) { s.Inert.IdentityStore = false },
		func(s *C17Scenario) { s.Inert.IdentityOverwrite = false },
		func(s *C17Scenario) { s.Inert.IdentityDetail = false },
		func(s *C17Scenario) { s.Inert.IdentitySpan = false },
	} {
		emit(f)
	}
	for i, c := range sc.Cmds {
		i := i
		cands := shrinkText(c.Src)
		if len(cands) > 16 {
			cands = cands[:16]
		}
		for _, t := range cands {
			t := t
			emit(func(s *C17Scenario) { s.Cmds[i].Src = t })
		}
	}
	return out
}

func init() {
	Register(&Check{
		ID: "C17", Level: "exploration",
		QuickRuns: 16000, ThoroughRuns: 400000,
		Gen: c17Gen, Exec: c17Exec, Shrink: c17Shrink,
		Rule: "one case = one session of 2-6 generated programs run twice: without and with a random set of inert extensions (regex customs that cannot match, a stream parser that reads ahead 1-3 runes, tries ReadDigits/Unread/Peek/ReadExpr and declines, pass-through HookValueLoadPre/Post, HookValueStore, GlobalValueLoadOverwriteFunc, identity detail rewriters): outcomes and variables must be identical and no inert handler may run. When an acting operator XX<n> is registered (tokens at operand positions, in loops, function bodies, computed values, templates): handler calls == executed custom-dice instructions per command, groups are exactly [matched text, digits] of an operand in the source (the handler scribbles on its groups afterwards), modifying the returned value object afterwards changes nothing in the VM, and planned handler faults (error, nil value) and stream-parser errors surface as errors. distinct = distinct command lists; non-trivial = at least 2 commands",
		Real: []string{"custom dice regex/stream matching inside the parser, hook call sites in load/store, detail rendering"},
		Stub: []string{"the host: every callback field is implemented by the simulator and logged"},
		Assumptions: []string{"callback behaviour stays inside the documented contracts (a pass-through HookValueLoadPost calls doCompute)"},
	})
}


// rrExpected gives the value of the fixed RR templates (each RR<n> stands for n).
func rrExpected(src string) (string, bool) {
	switch src {
	case "RR3 + RR4":
		return "i7", true
	case "RR3 * 2 + RR5 + 1":
		return "i12", true
	case "func ff(n0) { return RR5 + n0 }; ff(1) + ff(2) + RR1":
		return "i14", true
	case "&cv = RR2 + 1; cv + RR7":
		return "i10", true
	case "i=0; s=0; while i<3 { s = s + RR6; i=i+1 }; s + RR2":
		return "i20", true
	case "RR9":
		return "i9", true
	case "1 + RR8":
		return "i9", true
	case "RR1 + RR2 + RR3 + RR4":
		return "i10", true
	case "x = RR3; y = RR4; x * 10 + y":
		return "i34", true
	case "RR12 - RR2 * RR3":
		return "i6", true
	case "RR7 ? RR1 : RR2":
		return "i1", true
	}
	return "", false
}
