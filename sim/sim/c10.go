package sim

import (
	"bytes"
	"regexp"
	"encoding/json"
	"fmt"
	"sort"
	"strings"

	ds "github.com/sealdice/dicescript"
)

// C10 — deserialising untrusted or outdated JSON never yields a booby-trapped value.
//
// Stored-byte faults are applied to documents that real sessions wrote: torn/short writes
// (truncation), bit flips, stale schema (fields dropped / renamed / null, type tags changed,
// unknown native names, payloads of another type), duplicate keys, deep nesting, garbage sectors.
// For small documents every truncation length and every single-bit flip is enumerated.

type Corruption struct {
	K   string `json:"k"`           // alltrunc allflip trunc flip struct garbage raw
	N   int    `json:"n,omitempty"` // position / variant seed
	Doc string `json:"d,omitempty"` // raw document
}

type C10Scenario struct {
	Base   string // a document written by ToJSON (value or variable map)
	IsMap  bool
	Faults []Corruption
}

var c10Battery = []string{
	"v", "-v", "v+1", "1+v", "v[0]", "v['k']", "v.k", "v.len()", "v()", "v(1)", "`{v}`", "v==v", "v ?? 1", "[v,v].sum()", "v[0:1]",
	"(v)d6", "2d(v)", "&c = v; c", "v.k = 1", "v[0] = 1", "v.keys()", "v.compute()", "v.push(1)", "v.kh()", "x = v; x", "toStr(v)", "repr(v)",
	"typeId(v)", "toBool(v)", "dir(v)", "v ? 1 : 2", "v && 1", "!v" + "", "v * 2", "[1,2][v]", "{v: 1}", "abs(v)", "v.x.y", "&v.z", "v[0][0]", "v.sum()", "v.shift()",
}

func c10Gen(seed uint64, tier string) any {
	r := NewRng(seed)
	sc := &C10Scenario{}
	// base document: variables left by a generated session, or one of their values
	cfg := GenCfg(r).Tame()
	cfg.OpLimit = 20000
	o := SwarmOpts(r, cfg)
	o.Containers, o.Computed, o.Strings = true, true, true
	o.Funcs = o.Stmts
	g := NewProgGen(r.Fork(), o)
	base := "{}"
	func() {
		ds.VerifSortedRange = false // Range is sorted by the library itself since the C06 fix; the real loop runs
		m := &Meter{Budget: 200_000, HugeLimit: 1 << 20}
		m.Install()
		defer Uninstall()
		ResetGlobals(seed)
		vm := cfg.NewVM()
		for _, st := range g.Stmts(r.Range(2, 6)) {
			m.Reset()
			DoCmd(vm, Cmd{Kind: "run", Src: st})
		}
		if r.Chance(1, 4) {
			vm.Attrs.Store("nf", ds.NewNativeFunctionVal(&ds.NativeFunctionData{Name: "abs"}))
		}
		if r.Chance(1, 3) {
			// a method taken from a container and kept in a variable (its name is whatever the library
			// lists for that container): sessions do this, and snapshots then carry its serialised name
			kind := Pick(r, []string{"[3,1,2]", "{'a':1}"})
			m.Reset()
			DoCmd(vm, Cmd{Kind: "run", Src: "dir(" + kind + ")"})
			var names []string
			Guard(func() {
				if ad, ok := vm.Ret.ReadArray(); ok {
					for _, e := range ad.List {
						if s, ok := e.ReadString(); ok {
							names = append(names, s)
						}
					}
				}
			})
			if len(names) > 0 {
				m.Reset()
				DoCmd(vm, Cmd{Kind: "run", Src: "bmv = " + kind + "; bm = bmv." + names[r.Intn(len(names))] + "; 1"})
			}
		}
		Guard(func() {
			if b, err := vm.Attrs.ToJSON(); err == nil && len(b) < 4000 {
				base = string(b)
			}
		})
	}()
	sc.Base, sc.IsMap = base, true
	if r.Chance(1, 2) {
		// a single value out of the map
		var mm map[string]json.RawMessage
		if json.Unmarshal([]byte(base), &mm) == nil && len(mm) > 0 {
			keys := make([]string, 0, len(mm))
			for k := range mm {
				keys = append(keys, k)
			}
			sort.Strings(keys)
			sc.Base, sc.IsMap = string(mm[keys[r.Intn(len(keys))]]), false
		}
	}
	if r.Chance(1, 6) {
		sc.IsMap = false
		sc.Base = Pick(r, []string{
			`{"t":9,"v":{"name":"abs"}}`, `{"t":10,"v":{"name":"obj"}}`, `{"t":6,"v":{"list":[{"t":0,"v":1},{"t":7,"v":{"dict":{"a":{"t":2,"v":"x"}}}}]}}`,
			`{"t":5,"v":{"expr":"d6+x","attrs":{"x":{"t":0,"v":3}}}}`, `{"t":8,"v":{"expr":"return p+1","name":"ff","params":["p"]}}`, `{"t":1,"v":1.5}`, `{"t":4}`,
		})
	}
	n := len(sc.Base)
	if n <= 160 {
		sc.Faults = append(sc.Faults, Corruption{K: "alltrunc"}, Corruption{K: "allflip"})
	} else {
		for i := 0; i < 60; i++ {
			sc.Faults = append(sc.Faults, Corruption{K: "trunc", N: r.Intn(n)})
		}
		for i := 0; i < 200; i++ {
			sc.Faults = append(sc.Faults, Corruption{K: "flip", N: r.Intn(n * 8)})
		}
	}
	for i := 0; i < 40; i++ {
		sc.Faults = append(sc.Faults, Corruption{K: "struct", N: int(r.U64() >> 33)})
	}
	for i := 0; i < 4; i++ {
		sc.Faults = append(sc.Faults, Corruption{K: "garbage", N: int(r.U64() >> 33)})
	}
	for i := 0; i < 24; i++ {
		sc.Faults = append(sc.Faults, Corruption{K: "num", N: int(r.U64() >> 33)})
	}
	for i := 0; i < 16; i++ {
		sc.Faults = append(sc.Faults, Corruption{K: "dupkey", N: int(r.U64() >> 33)})
	}
	return sc
}

// longListDocs: long lists (dice pools) with holes, wrong elements or nested in other values.
var longListDocs = func() []string {
	ints := func(n int) []string {
		var xs []string
		for i := 0; i < n; i++ {
			xs = append(xs, fmt.Sprintf(`{"t":0,"v":%d}`, i+1))
		}
		return xs
	}
	list := func(xs []string) string { return `{"t":6,"v":{"list":[` + strings.Join(xs, ",") + `]}}` }
	var out []string
	for _, n := range []int{15, 16, 17, 40} {
		for _, hole := range []string{"null", `{"t":1,"v":1.5}`, `{"t":2,"v":"s"}`, `{"t":0}`, `{"t":0,"v":null}`, `{}`} {
			xs := append(ints(n), hole)
			out = append(out, list(xs))
			ys := ints(n)
			ys[n/2] = hole
			out = append(out, list(ys))
		}
	}
	inner := list(append(ints(20), "null"))
	out = append(out, `{"t":7,"v":{"dict":{"pool":`+inner+`}}}`, `{"t":5,"v":{"expr":"1","attrs":{"pool":`+inner+`}}}`, list([]string{inner, inner}), list(ints(64)))
	return out
}()

// weirdNameDocs: variable maps whose names are unusual (empty, reserved words, punctuation, long, medium-long
// multi-byte) and whose values are ordinary, null or not serialisable.
var weirdNameDocs = func() []string {
	names := []string{"", "if", "this", "a.b[0]", "k:colon", strings.Repeat("n", 300), "角色卡临时属性力量基础值备份", "ＨＰ＿ｍａｘ＿ｂａｃｋｕｐ＿０１", strings.Repeat("长", 14), strings.Repeat("长", 30), strings.Repeat("长", 36), strings.Repeat("长", 38), strings.Repeat("长", 400), "é" + strings.Repeat("x", 39), "\\u0000nul", "q\\\"uote"}
	var out []string
	for _, n := range names {
		k := `"` + n + `"`
		out = append(out, `{`+k+`:null}`, `{`+k+`:{"t":0,"v":1},"zz":null}`, `{`+k+`:{"t":6,"v":{"list":[null]}}}`, `{`+k+`:{"t":1,"v":1e999}}`, `{`+k+`:{"t":7,"v":{"dict":{`+k+`:null}}}}`)
	}
	return out
}()

var schemaDocs = []string{
	`{"t":9,"v":{"name":"nope"}}`, `{"t":9,"v":{}}`, `{"t":9}`, `{"t":9,"v":null}`, `{"t":10}`, `{"t":10,"v":null}`,
	`{"t":6,"v":{"list":[null]}}`, `{"t":6,"v":{"list":[null,{"t":0,"v":1}]}}`, `{"t":6,"v":{"list":null}}`, `{"t":6,"v":{}}`, `{"t":6}`, `{"t":6,"v":null}`, `{"t":6,"v":[]}`, `{"t":6,"v":{"list":{}}}`,
	`{"t":7,"v":{"dict":null}}`, `{"t":7,"v":{"dict":{"a":null}}}`, `{"t":7}`, `{"t":7,"v":null}`, `{"t":7,"v":{}}`, `{"t":7,"v":{"dict":[]}}`,
	`{"t":5}`, `{"t":5,"v":null}`, `{"t":5,"v":{"expr":null}}`, `{"t":5,"v":{"expr":"(","attrs":null}}`, `{"t":5,"v":{"expr":"x","attrs":{"x":null}}}`, `{"t":5,"v":{"expr":"cv"}}`,
	`{"t":8}`, `{"t":8,"v":null}`, `{"t":8,"v":{"expr":"return (","name":"f","params":null}}`, `{"t":8,"v":{"expr":"p","name":"","params":["p","p"]}}`, `{"t":8,"v":{"params":[null]}}`,
	`{"t":0}`, `{"t":0,"v":null}`, `{"t":0,"v":"1"}`, `{"t":0,"v":1.5}`, `{"t":0,"v":1e400}`, `{"t":0,"v":"1e400"}`, `{"t":0,"v":-1e999}`, `{"t":1,"v":"1e400"}`, `{"t":1,"v":-1e999}`, `{"t":0,"v":99999999999999999999}`, `{"t":1}`, `{"t":1,"v":"x"}`, `{"t":1,"v":1e999}`, `{"t":2}`, `{"t":2,"v":5}`, `{"t":2,"v":null}`,
	`{"t":3}`, `{"t":3,"v":1}`, `{"t":11}`, `{"t":20}`, `{"t":21}`, `{"t":-1}`, `{"t":99,"v":{"list":[]}}`, `{"t":"6","v":{"list":[]}}`, `{"t":6.5}`, `{"t":null}`, `{}`, `null`, `[]`, `1`, `"x"`, `true`,
	`{"t":6,"t":0,"v":1}`, `{"t":0,"v":1,"v":{"list":[]}}`, `{"t":6,"v":{"list":[]},"v":3}`, `{"T":6,"V":{"LIST":[null]}}`,
}

func garbage(r *Rng) string {
	n := r.Range(0, 40)
	b := make([]byte, n)
	for i := range b {
		b[i] = byte(r.Intn(256))
	}
	return string(b)
}

// dupKeyFault repeats a key inside one object of the document, after the keys that are there: a second
// type tag (of another kind) or a second payload. Writers that merge or append records produce this.
func dupKeyFault(base string, seed int) string {
	r := NewRng(uint64(seed))
	var closes []int
	inStr, esc := false, false
	for i := 0; i < len(base); i++ {
		c := base[i]
		switch {
		case esc:
			esc = false
		case inStr && c == '\\':
			esc = true
		case c == '"':
			inStr = !inStr
		case !inStr && c == '}' && i > 0 && base[i-1] != '{':
			closes = append(closes, i)
		}
	}
	if len(closes) == 0 {
		return base
	}
	at := closes[r.Intn(len(closes))]
	extra := Pick(r, []string{`,"t":0`, `,"t":2`, `,"t":5`, `,"t":6`, `,"t":7`, `,"t":8`, `,"t":9`, `,"t":4`, `,"T":6`, `,"v":1`, `,"v":{"list":[]}`, `,"v":null`, `,"t":0,"v":{"dict":{}}`})
	return base[:at] + extra + base[at:]
}

// structFault applies one stale-schema fault to a JSON document (on the parsed tree).
func structFault(base string, seed int) string {
	r := NewRng(uint64(seed))
	if r.Chance(1, 3) {
		if r.Chance(1, 4) {
			return Pick(r, longListDocs)
		}
		if r.Chance(1, 4) {
			return Pick(r, weirdNameDocs)
		}
		return Pick(r, schemaDocs)
	}
	dec := json.NewDecoder(strings.NewReader(base))
	dec.UseNumber()
	var tree any
	if dec.Decode(&tree) != nil {
		return Pick(r, schemaDocs)
	}
	// collect object nodes
	var objs []map[string]any
	var walk func(x any)
	walk = func(x any) {
		switch n := x.(type) {
		case map[string]any:
			objs = append(objs, n)
			keys := make([]string, 0, len(n))
			for k := range n {
				keys = append(keys, k)
			}
			sort.Strings(keys)
			for _, k := range keys {
				walk(n[k])
			}
		case []any:
			for _, e := range n {
				walk(e)
			}
		}
	}
	walk(tree)
	if len(objs) == 0 {
		return Pick(r, schemaDocs)
	}
	o := objs[r.Intn(len(objs))]
	keys := make([]string, 0, len(o))
	for k := range o {
		keys = append(keys, k)
	}
	sort.Strings(keys)
	if len(keys) == 0 {
		o["t"] = json.Number("6")
	} else {
		k := keys[r.Intn(len(keys))]
		switch r.Intn(9) {
		case 0:
			delete(o, k)
		case 1:
			o[k] = nil
		case 2:
			o[strings.ToUpper(k)] = o[k]
			delete(o, k)
		case 3:
			o["t"] = json.Number(fmt.Sprint(Pick(r, []int{0, 1, 2, 3, 4, 5, 6, 7, 8, 9, 10, 11, 20, 21, -1, 99})))
		case 4:
			o[k] = Pick(r, []any{json.Number("7"), "str", []any{}, map[string]any{}, true, json.Number("1.5"), []any{nil}, map[string]any{"list": nil}})
		case 5:
			// payload of another node
			o2 := objs[r.Intn(len(objs))]
			if v, ok := o2["v"]; ok {
				o["v"] = v
			} else {
				o["v"] = nil
			}
		case 6:
			if _, ok := o["name"]; ok {
				o["name"] = "removedInThisVersion"
			} else {
				o["name"] = "abs"
			}
		case 7:
			o[k] = []any{o[k], nil}
		default:
			// deep nesting
			var deep any = map[string]any{"t": json.Number("0"), "v": json.Number("1")}
			for i := 0; i < 150; i++ {
				deep = map[string]any{"t": json.Number("6"), "v": map[string]any{"list": []any{deep}}}
			}
			o[k] = deep
		}
	}
	b, err := json.Marshal(tree)
	if err != nil {
		return Pick(r, schemaDocs)
	}
	return string(b)
}

var numAlternatives = []string{
	"1e400", "-1e999", "1e-400", "1E400", "0.5", "-0.5", "1.0", "1e3", "\"12\"", "\"1e400\"", "\"NaN\"", "9223372036854775807", "9223372036854775808", "-9223372036854775809",
	"99999999999999999999999999", "1.7976931348623157e308", "1.7976931348623159e308", "-0", "0e0", "null", "true", "[1]", "{}", "01", "1.", ".5", "+1", "0x10", "1e", "NaN", "Infinity",
}

var reNumTok = regexp.MustCompile(`(?:[:\[,])(-?\d+(?:\.\d+)?(?:[eE][+-]?\d+)?)`)

// numFault replaces one numeric token of the document (a value, or a type tag) by another number
// spelling: exponents out of float range, fractions where an int is expected, numbers as strings, ...
func numFault(base string, seed int) string {
	r := NewRng(uint64(seed))
	locs := reNumTok.FindAllStringSubmatchIndex(base, -1)
	if len(locs) == 0 {
		return `{"t":0,"v":` + Pick(r, numAlternatives) + `}`
	}
	l := locs[r.Intn(len(locs))]
	return base[:l[2]] + Pick(r, numAlternatives) + base[l[3]:]
}

func expandFaults(sc *C10Scenario) []string {
	var docs []string
	for _, f := range sc.Faults {
		switch f.K {
		case "alltrunc":
			for i := 0; i < len(sc.Base); i++ {
				docs = append(docs, sc.Base[:i])
			}
		case "allflip":
			for i := 0; i < len(sc.Base)*8; i++ {
				b := []byte(sc.Base)
				b[i/8] ^= 1 << uint(i%8)
				docs = append(docs, string(b))
			}
		case "trunc":
			if f.N < len(sc.Base) {
				docs = append(docs, sc.Base[:f.N])
			}
		case "flip":
			if f.N/8 < len(sc.Base) {
				b := []byte(sc.Base)
				b[f.N/8] ^= 1 << uint(f.N%8)
				docs = append(docs, string(b))
			}
		case "struct":
			docs = append(docs, structFault(sc.Base, f.N))
		case "garbage":
			docs = append(docs, garbage(NewRng(uint64(f.N))))
		case "num":
			docs = append(docs, numFault(sc.Base, f.N))
		case "dupkey":
			docs = append(docs, dupKeyFault(sc.Base, f.N))
		case "raw":
			docs = append(docs, f.Doc)
		}
	}
	return docs
}

// useValue applies the battery to a decoded value. Returns a panic signature and what panicked.
func useValue(v *ds.VMValue, m *Meter, res *RunResult) (string, string) {
	if ExpandedSize(v) > 200_000 {
		res.Probe("decoded_value_too_large_for_battery")
		return "", ""
	}
	other := ds.NewArrayVal(ds.NewIntVal(1))
	direct := []struct {
		name string
		f    func()
	}{
		{"ToString", func() { _ = v.ToString() }},
		{"ToRepr", func() { _ = v.ToRepr() }},
		{"AsBool", func() { _ = v.AsBool() }},
		{"Clone", func() { _ = v.Clone().ToString() }},
		{"GetTypeName", func() { _ = v.GetTypeName() }},
		{"ValueEqual(v,v)", func() { _ = ds.ValueEqual(v, v.Clone(), true) }},
		{"ValueEqual(v,o)", func() { _ = ds.ValueEqual(v, other, true); _ = ds.ValueEqual(other, v, false) }},
		{"ToJSON", func() {
			b, err := v.ToJSON()
			if err == nil {
				if v2, err2 := ds.VMValueFromJSON(b); err2 == nil {
					_ = v2.ToString()
					_ = ds.ValueEqual(v, v2, true)
				}
			}
		}},
	}
	for _, d := range direct {
		if p, _, _, sig, msg := Guard(d.f); p {
			return sig, d.name + ": " + msg
		}
	}
	// a seeded third of the battery per shape: across runs every script meets every shape
	pick := NewRng(HashStr(valueShape(v)) ^ uint64(res.Seed))
	for _, src := range c10Battery {
		if !pick.Chance(1, 3) {
			continue
		}
		vm := ds.NewVM()
		vm.Config.OpCountLimit = 20000
		vm.Config.EnableDiceWoD, vm.Config.EnableDiceCoC, vm.Config.EnableDiceFate, vm.Config.EnableDiceDoubleCross = true, true, true, true
		vm.Attrs.Store("v", v)
		m.Reset()
		o := DoCmd(vm, Cmd{Kind: "run", Src: src})
		res.Evals++
		res.Ticks += m.Ticks
		if o.Panic != "" {
			return o.Panic, "script " + src + " (" + o.PanicAt + ")"
		}
		if strings.Contains(o.Err, "VM内部错误") {
			res.Probe("internal_error_on_decoded_value")
		}
		if p, _, _, sig, msg := Guard(func() {
			if vm.Ret != nil && ExpandedSize(vm.Ret) < 200_000 {
				_ = vm.Ret.ToString()
			}
			_ = vm.GetDetailText()
		}); p {
			return sig, "printing the result of script " + src + ": " + msg
		}
	}
	return "", ""
}

// livedInMap returns a variable map that has been used before (stores, misses, iteration, deletes,
// clears in a seeded order): the target a host decodes into when it rolls a running VM back.
func livedInMap(seed uint64, keys []string) *ds.ValueMap {
	mm := &ds.ValueMap{}
	r := NewRng(seed)
	pool := append([]string{"a", "b", "c", "zz_old"}, keys...)
	n := r.Intn(10)
	for i := 0; i < n; i++ {
		k := Pick(r, pool)
		switch r.Intn(8) {
		case 0, 1, 2:
			mm.Store(k, ds.NewIntVal(ds.IntType(i)))
		case 3:
			mm.Load(k)
		case 4:
			mm.Range(func(string, *ds.VMValue) bool { return true })
		case 5:
			mm.Delete(k)
		case 6:
			mm.LoadOrStore(k, ds.NewIntVal(ds.IntType(100+i)))
		default:
			if r.Chance(1, 3) {
				mm.Clear()
			} else {
				mm.Length()
			}
		}
	}
	return mm
}

// useLiveMap decodes a variable-map document into maps that have been used before and then uses
// them as a VM's variables. Twin A is observed first (what did the decode leave?), twin B is
// written to first. Returns a signature and a description when something crashed or when a
// read-only operation changed what the map holds.
func useLiveMap(doc string, seed uint64, m *Meter, res *RunResult) (string, string) {
	var top map[string]json.RawMessage
	if json.Unmarshal([]byte(doc), &top) != nil {
		return "", ""
	}
	var keys []string
	for k := range top {
		keys = append(keys, k)
	}
	sort.Strings(keys)
	if len(keys) > 40 {
		keys = keys[:40]
	}
	A, B := livedInMap(seed, keys), livedInMap(seed, keys)
	var ea, eb error
	if p, _, _, sig, msg := Guard(func() { ea = json.Unmarshal([]byte(doc), A); eb = json.Unmarshal([]byte(doc), B) }); p {
		return "livemap-decode-" + sig, "decoding into a used map panicked: " + msg
	}
	if ea != nil || eb != nil {
		return "", ""
	}
	res.Fault("decode_into_used_map")
	// A: lookups, then iteration, then lookups again must agree
	var sig, what string
	if p, _, _, s2, msg := Guard(func() {
		probe := append([]string{"a", "b", "c", "zz_old", "zz_missing1", "zz_missing2", "zz_missing3"}, keys...)
		before := map[string]bool{}
		for _, k := range probe {
			if _, ok := A.Load(k); ok {
				before[k] = true
			}
		}
		n1 := A.Length()
		ranged := map[string]bool{}
		A.Range(func(k string, _ *ds.VMValue) bool { ranged[k] = true; return true })
		after := map[string]bool{}
		for _, k := range probe {
			if _, ok := A.Load(k); ok {
				after[k] = true
			}
		}
		n2 := A.Length()
		for _, k := range probe {
			if before[k] != ranged[k] || before[k] != after[k] {
				sig, what = "livemap-readonly-ops-change-contents", fmt.Sprintf("key %q: Load before iteration found=%v, Range visited=%v, Load afterwards found=%v", k, before[k], ranged[k], after[k])
				return
			}
		}
		if n1 != len(ranged) || n2 != len(ranged) {
			sig, what = "livemap-readonly-ops-change-contents", fmt.Sprintf("Length()=%d before and %d after a Range that visited %d keys", n1, n2, len(ranged))
		}
	}); p {
		return "livemap-" + s2, "reading a map decoded into a used target panicked: " + msg
	}
	if sig != "" {
		return sig, what
	}
	// B: written to first, host-side and from a script
	want := CanonMap(A)
	r := NewRng(seed ^ 0x5bd1)
	hostFirst := r.Bool()
	step := func(name string, f func()) bool {
		if p, _, _, s2, msg := Guard(f); p {
			sig, what = "livemap-"+s2, name+" on a map decoded into a used target panicked: "+msg
			return false
		}
		return true
	}
	script := func() bool {
		vm := ds.NewVM()
		vm.Config.OpCountLimit = 20000
		vm.Attrs = B
		m.Reset()
		o := DoCmd(vm, Cmd{Kind: "run", Src: "zz_fresh = 7; zz_fresh + 1"})
		res.Evals++
		if o.Panic != "" {
			sig, what = "livemap-"+o.Panic, "assigning a new variable in a script panicked ("+o.PanicAt+")"
			return false
		}
		if o.Err != "" || o.Ret != "i8" {
			sig, what = "livemap-script-assignment-fails", fmt.Sprintf("'zz_fresh = 7; zz_fresh + 1' on the restored variables gives %s", o.Short())
			return false
		}
		return true
	}
	host := func() bool {
		return step("Store of a new key", func() { B.Store("zz_host", ds.NewIntVal(5)) }) &&
			step("LoadOrStore of a new key", func() { B.LoadOrStore("zz_host2", ds.NewIntVal(6)) })
	}
	if hostFirst {
		if !host() || !script() {
			return sig, what
		}
	} else {
		if !script() || !host() {
			return sig, what
		}
	}
	if !step("cleanup", func() { B.Delete("zz_fresh"); B.Delete("zz_host"); B.Delete("zz_host2") }) {
		return sig, what
	}
	var got string
	if !step("printing", func() { got = CanonMap(B) }) {
		return sig, what
	}
	if got != want {
		return "livemap-twins-differ", fmt.Sprintf("two identically used maps hold different variables after the same decode, depending on whether they were read or written first\n  read first:    %s\n  written first: %s", trunc(want, 300), trunc(got, 300))
	}
	return "", ""
}

// valueShape abstracts a value to its tree of types (scalars lose their payload, except that
// empty / negative / huge are kept apart).
func valueShape(v *ds.VMValue) string {
	c := Canon(v)
	var sb strings.Builder
	i := 0
	for i < len(c) {
		ch := c[i]
		switch {
		case ch == 'i' && i+1 < len(c) && (c[i+1] == '-' || (c[i+1] >= '0' && c[i+1] <= '9')):
			j := i + 1
			for j < len(c) && (c[j] == '-' || (c[j] >= '0' && c[j] <= '9')) {
				j++
			}
			num := c[i+1 : j]
			switch {
			case num == "0":
				sb.WriteString("i0")
			case strings.HasPrefix(num, "-"):
				sb.WriteString("i-")
			case len(num) > 6:
				sb.WriteString("iBIG")
			default:
				sb.WriteString("i+")
			}
			i = j
		case ch == 's' && i+1 < len(c) && c[i+1] == '"':
			j := i + 2
			for j < len(c) && c[j] != '"' {
				if c[j] == '\\' {
					j++
				}
				j++
			}
			if j == i+2 {
				sb.WriteString("s0")
			} else {
				sb.WriteString("s+")
			}
			i = j + 1
		case ch == 'f' && i+1 < len(c) && ((c[i+1] >= '0' && c[i+1] <= '9') || (c[i+1] >= 'a' && c[i+1] <= 'f')) && (i == 0 || strings.IndexByte("[,:{(", c[i-1]) >= 0):
			j := i + 1
			for j < len(c) && ((c[j] >= '0' && c[j] <= '9') || (c[j] >= 'a' && c[j] <= 'f')) {
				j++
			}
			sb.WriteString("f")
			i = j
		case ch == '"':
			// a dict key or a quoted expression: its text does not matter
			j := i + 1
			for j < len(c) && c[j] != '"' {
				if c[j] == '\\' {
					j++
				}
				j++
			}
			sb.WriteString("K")
			i = j + 1
		default:
			sb.WriteByte(ch)
			i++
		}
	}
	return sb.String()
}

func c10Exec(raw json.RawMessage, res *RunResult) {
	var sc C10Scenario
	if err := json.Unmarshal(raw, &sc); err != nil {
		res.Violate("harness-scenario", "bad scenario: %v", err)
		return
	}
	dg := &Digest{}
	ds.VerifSortedRange = false // Range is sorted by the library itself since the C06 fix; the real loop runs
	ResetGlobals(1)
	m := &Meter{Budget: 100_000, HugeLimit: 4 << 20}
	m.Install()
	defer Uninstall()
	docs := expandFaults(&sc)
	decoded := 0
	var firstBad string
	var firstBadSig string
	seen := map[string]bool{}
	shapes := map[string]bool{}
	liveDone := 0
	for _, doc := range docs {
		if seen[doc] {
			continue
		}
		seen[doc] = true
		kinds := []bool{sc.IsMap}
		if !sc.IsMap && strings.HasPrefix(strings.TrimSpace(doc), "{") {
			kinds = []bool{false, true} // any object may also be presented as a variable map
		}
		for _, asMap := range kinds {
			var vals []*ds.VMValue
			var derr error
			p, _, _, sig, msg := Guard(func() {
				if asMap {
					mm := &ds.ValueMap{}
					derr = json.Unmarshal([]byte(doc), mm)
					if derr == nil {
						mm.Range(func(k string, v *ds.VMValue) bool { vals = append(vals, v); return true })
						vals = append(vals, ds.NewDictVal(mm).V())
					}
				} else {
					var v *ds.VMValue
					v, derr = ds.VMValueFromJSON([]byte(doc))
					if derr == nil {
						vals = append(vals, v)
					}
				}
			})
			if p {
				res.Violate("decode-"+sig, "decoding panicked: %s\n  doc=%s", msg, trunc(doc, 400))
				if firstBad == "" {
					firstBad, firstBadSig = doc, "decode-"+sig
				}
				continue
			}
			if derr != nil {
				res.Probe("decode_error")
				continue
			}
			decoded++
			res.Probe("decode_ok")
			if asMap && liveDone < 6 {
				liveDone++
				for st := uint64(0); st < 3; st++ {
					// the used target's history is a function of the document alone: a replay of the document reproduces it
					if sig, what := useLiveMap(doc, HashStr(doc)+st, m, res); sig != "" {
						res.Violate(sig, "%s\n  doc=%s", what, trunc(doc, 400))
						if firstBad == "" {
							firstBad, firstBadSig = doc, sig
						}
						break
					}
				}
			}
			for _, v := range vals {
				if v != nil {
					// the battery runs once per distinct type-shape of a decoded value (a flipped digit or
					// letter changes a scalar, not how the value can trap its user)
					sh := valueShape(v)
					if shapes[sh] {
						res.Probe("battery_skipped_same_shape")
						continue
					}
					shapes[sh] = true
				}
				if v == nil {
					// a nil value inside a variable map: what a script would get when loading it
					res.Probe("nil_value_in_decoded_map")
					continue
				}
				if sig, what := useValue(v, m, res); sig != "" {
					res.Violate(sig, "a decoded value crashed on use: %s\n  doc=%s", what, trunc(doc, 400))
					if firstBad == "" {
						firstBad, firstBadSig = doc, sig
					}
				}
			}
			dg.Add("doc", doc, fmt.Sprint(asMap), fmt.Sprint(len(vals)))
		}
	}
	_ = firstBadSig
	res.FaultN("documents", len(seen))
	for _, f := range sc.Faults {
		res.Fault("fault_" + f.K)
	}
	res.Digest = dg.Hex()
	res.Nontrivial = decoded >= 2
	res.CaseKey = HashStr(sc.Base)
	res.State(HashStr(shapeOfJSON([]byte(sc.Base))))
	if firstBad != "" {
		alt := C10Scenario{Base: firstBad, IsMap: sc.IsMap, Faults: []Corruption{{K: "raw", Doc: firstBad}}}
		res.AltScenario = MustJSON(&alt)
	}
}

func c10Shrink(raw json.RawMessage) []json.RawMessage {
	var sc C10Scenario
	if json.Unmarshal(raw, &sc) != nil {
		return nil
	}
	var out []json.RawMessage
	if len(sc.Faults) == 1 && sc.Faults[0].K == "raw" {
		doc := sc.Faults[0].Doc
		// structural shrinking: re-marshal with parts removed
		var tree any
		if json.Unmarshal([]byte(doc), &tree) == nil {
			var cands []any
			var walk func(x any)
			walk = func(x any) {
				switch n := x.(type) {
				case map[string]any:
					for _, v := range n {
						cands = append(cands, v)
						walk(v)
					}
				case []any:
					for _, v := range n {
						cands = append(cands, v)
						walk(v)
					}
				}
			}
			walk(tree)
			for _, c := range cands {
				if b, err := json.Marshal(c); err == nil && len(b) < len(doc) && bytes.HasPrefix(b, []byte("{")) {
					out = append(out, MustJSON(&C10Scenario{Base: string(b), IsMap: sc.IsMap, Faults: []Corruption{{K: "raw", Doc: string(b)}}}))
				}
			}
		}
		for i, t := range shrinkText(doc) {
			if i > 40 {
				break
			}
			out = append(out, MustJSON(&C10Scenario{Base: t, IsMap: sc.IsMap, Faults: []Corruption{{K: "raw", Doc: t}}}))
		}
		return out
	}
	for i := range sc.Faults {
		c := sc
		c.Faults = []Corruption{sc.Faults[i]}
		out = append(out, MustJSON(&c))
	}
	return out
}

func init() {
	Register(&Check{
		ID: "C10", Level: "fault_enumeration",
		QuickRuns: 2400, ThoroughRuns: 40000,
		Gen: c10Gen, Exec: c10Exec, Shrink: c10Shrink,
		Rule: "stale-schema faults include long lists with holes / wrong elements (also nested in dicts and computed attrs), repeated keys after the payload (a second type tag of another kind, a second payload) and sessions that keep bound methods in variables. Variable-map documents are also decoded into USED target maps (seeded histories of store / miss / range / delete / clear; three histories per document, six documents per case) as read-first and write-first twins: lookups, iteration and Length must agree before and after iteration, host stores and a script assignment of a new variable must work, and both twins must end with the same variables. One case = one document written by ToJSON in a generated session (a variable map or one of its values; ints, floats, strings, arrays, dicts, functions, computed values with attributes, native functions) plus a set of stored-byte faults: for documents up to 160 bytes EVERY truncation length and EVERY single-bit flip, for larger ones 60 truncations and 200 flips, plus 40 stale-schema faults on the JSON tree (field dropped / renamed / null, type tag changed incl. internal and unknown tags, payload of another node, unknown native name, duplicate keys, 150-deep nesting, hand-written malformed documents) and garbage sectors; every object is also presented as a variable map. Each document must be rejected or decode to values on which ToString, ToRepr, AsBool, Clone, ValueEqual, ToJSON+decode and a battery of 42 scripts with the value bound as v (indexing, calling, arithmetic, attribute access, dice operands, templates) plus an observation burst are crash-free. distinct = distinct base documents; non-trivial = at least 2 corrupted documents still decoded",
		Real: []string{"VMValue.UnmarshalJSON / ValueMap.UnmarshalJSON, every VMValue method in the battery, the VM with the value bound"},
		Stub: []string{"disk faults applied to bytes in memory"},
		Assumptions: []string{"errors (including 'VM internal error' results) are acceptable outcomes; only panics, fatal errors and hangs are violations"},
	})
}
