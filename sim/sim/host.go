package sim

import (
	"errors"
	"fmt"
	"strconv"
	"strings"

	ds "github.com/sealdice/dicescript"
)

// HostSpec says which extension points the simulated host installs and how they behave.
// Behaviours stay inside the documented callback contracts.
type HostSpec struct {
	// Custom dice: a regex operator TOK(\d+) whose handler returns its number.
	Custom     bool   `json:",omitempty"`
	CustomTok  string `json:",omitempty"`
	// HandlerPlan: behaviour of successive handler calls: 'v' value, 'e' error, 'n' nil value, 'r' re-entrant RunExpr then value,
	// 'p' the callback panics, 'd' the callback rolls a die on the evaluating context's generator.
	HandlerPlan string `json:",omitempty"`
	// ReuseResult: the callback refills and returns one value object for all its calls (the library
	// uses a returned value by copy, so this is a legitimate way to write a callback).
	ReuseResult bool `json:",omitempty"`
	// Inert extensions (must change nothing).
	NeverRegex   bool `json:",omitempty"` // regex customs that never match
	NeverStream  int  `json:",omitempty"` // stream parser that reads ahead N runes then declines (0 = off)
	StreamDigits bool `json:",omitempty"` // declining stream parser also tries ReadDigits/Unread
	StreamExpr   bool `json:",omitempty"` // declining stream parser also tries ReadExpr
	IdentityLoadPre  bool `json:",omitempty"`
	IdentityLoadPost bool `json:",omitempty"`
	IdentityStore    bool `json:",omitempty"`
	IdentityOverwrite bool `json:",omitempty"`
	IdentityDetail   bool `json:",omitempty"`
	IdentitySpan     bool `json:",omitempty"`
	// StreamCustom: an acting stream syntax RR<digits> whose parser reuses one result object and one
	// groups buffer across calls (a legitimate way to write a parser: nothing says the library keeps
	// the slice).
	StreamCustom bool `json:",omitempty"`
	// Acting global scope.
	Globals    bool `json:",omitempty"` // GlobalValueLoadFunc serves g1,g2,全局
	StLog      bool `json:",omitempty"`
}

// Invocation is one handler call.
type Invocation struct {
	What   string
	Groups []string
	Tick   int64
}

// Host is the simulated embedding program.
type Host struct {
	Spec     HostSpec
	Calls    []Invocation
	StCalls  []string
	handlerN int
	Returned []*ds.VMValue
	shared   *ds.VMValue
	Meter    *Meter
	GlobalStore map[string]*ds.VMValue
	Fired    map[string]int
}

func NewHost(spec HostSpec, m *Meter) *Host {
	return &Host{Spec: spec, Meter: m, GlobalStore: map[string]*ds.VMValue{}, Fired: map[string]int{}}
}

// Install registers everything the spec asks for on a VM.
func (h *Host) Install(vm *ds.Context) {
	s := h.Spec
	if s.NeverRegex {
		_ = vm.RegCustomDice(`ZZnever(\d+)`, func(ctx *ds.Context, groups []string, payload any) (*ds.VMValue, string, error) {
			h.Calls = append(h.Calls, Invocation{What: "never-regex", Groups: groups})
			return ds.NewIntVal(0), "", nil
		})
		// a pattern with a top-level alternation: neither branch can start an operand of the generated
		// programs, but the second one occurs INSIDE identifiers they use (xZZb7)
		_ = vm.RegCustomDice(`ZZa(\d+)|ZZb(\d+)`, func(ctx *ds.Context, groups []string, payload any) (*ds.VMValue, string, error) {
			h.Calls = append(h.Calls, Invocation{What: "never-regex3", Groups: groups})
			return ds.NewIntVal(0), "", nil
		})
		_ = vm.RegCustomDice(`[^\x00-\x{10FFFF}]x`, func(ctx *ds.Context, groups []string, payload any) (*ds.VMValue, string, error) {
			h.Calls = append(h.Calls, Invocation{What: "never-regex2", Groups: groups})
			return ds.NewIntVal(0), "", nil
		})
	}
	if s.NeverStream > 0 {
		n := s.NeverStream
		_ = vm.RegCustomDiceParser(func(ctx *ds.Context, st *ds.CustomDiceStream) (*ds.CustomDiceParseResult, error) {
			h.Fired["stream_attempt"]++
			for i := 0; i < n; i++ {
				if _, ok := st.Read(); !ok {
					break
				}
			}
			if s.StreamDigits {
				st.ReadDigits()
				st.Unread()
				st.Peek()
			}
			if s.StreamExpr {
				_, _, _ = st.ReadExpr("")
			}
			_ = st.Remaining()
			_ = st.Current()
			return &ds.CustomDiceParseResult{Matched: false}, nil
		}, func(ctx *ds.Context, groups []string, payload any) (*ds.VMValue, string, error) {
			h.Calls = append(h.Calls, Invocation{What: "never-stream", Groups: groups})
			return ds.NewIntVal(0), "", nil
		})
	}
	if s.Custom {
		tok := s.CustomTok
		_ = vm.RegCustomDice(tok+`(\d+)`, func(ctx *ds.Context, groups []string, payload any) (*ds.VMValue, string, error) {
			var tick int64
			if h.Meter != nil {
				tick = h.Meter.Ticks
			}
			h.Calls = append(h.Calls, Invocation{What: "custom", Groups: append([]string(nil), groups...), Tick: tick})
			beh := byte('v')
			if h.handlerN < len(s.HandlerPlan) {
				beh = s.HandlerPlan[h.handlerN]
			}
			h.handlerN++
			n := 0
			if len(groups) > 1 {
				n, _ = strconv.Atoi(groups[1])
			}
			switch beh {
			case 'e':
				h.Fired["callback_error"]++
				return nil, "", errors.New("host: handler failed")
			case 'n':
				h.Fired["callback_nil"]++
				return nil, "", nil
			case 'r':
				h.Fired["reentrant_call"]++
				_, _ = ctx.RunExpr("1+1", false)
			case 'p':
				// the callback itself crashes: the library turns that into an evaluation error
				h.Fired["callback_panic"]++
				var zero int
				_ = 1 / zero
			case 'd':
				// the callback rolls on the evaluating context's own generator
				h.Fired["callback_rolls"]++
				n += int(ds.Roll(ctx.RandSrc, 6, 0))
			}
			// groups may be scribbled on by a handler: the VM must have passed a copy
			for i := range groups {
				groups[i] = "scribbled"
			}
			if s.ReuseResult {
				if h.shared == nil {
					h.shared = ds.NewIntVal(0)
				}
				h.shared.TypeId, h.shared.Value = ds.VMTypeInt, ds.IntType(n)
				h.Fired["callback_reuses_result_object"]++
				return h.shared, "", nil
			}
			v := ds.NewIntVal(ds.IntType(n))
			h.Returned = append(h.Returned, v)
			return v, "", nil
		})
	}
	if s.StreamCustom {
		buf := make([]string, 2)
		result := &ds.CustomDiceParseResult{}
		_ = vm.RegCustomDiceParser(func(ctx *ds.Context, st *ds.CustomDiceStream) (*ds.CustomDiceParseResult, error) {
			a, ok1 := st.Read()
			b, ok2 := st.Read()
			buf[0], buf[1] = "", ""
			if !(ok1 && ok2 && a == 'R' && b == 'R') {
				result.Matched = false
				return result, nil
			}
			digits, ok := st.ReadDigits()
			if !ok {
				result.Matched = false
				return result, nil
			}
			buf[0], buf[1] = "RR"+digits, digits
			result.Matched, result.Groups = true, buf
			return result, nil
		}, func(ctx *ds.Context, groups []string, payload any) (*ds.VMValue, string, error) {
			h.Calls = append(h.Calls, Invocation{What: "stream-custom", Groups: append([]string(nil), groups...)})
			n := 0
			if len(groups) > 1 {
				n, _ = strconv.Atoi(groups[1])
			}
			return ds.NewIntVal(ds.IntType(n)), "", nil
		})
	}
	if s.IdentityLoadPre {
		vm.Config.HookValueLoadPre = func(ctx *ds.Context, name string) (string, *ds.VMValue) {
			h.Fired["hook_load_pre"]++
			return name, nil
		}
	}
	if s.IdentityLoadPost {
		vm.Config.HookValueLoadPost = func(ctx *ds.Context, name string, curVal *ds.VMValue, doCompute func(curVal *ds.VMValue) *ds.VMValue, detail *ds.BufferSpan) *ds.VMValue {
			h.Fired["hook_load_post"]++
			return doCompute(curVal)
		}
	}
	if s.IdentityStore {
		vm.Config.HookValueStore = func(ctx *ds.Context, name string, v *ds.VMValue) (*ds.VMValue, bool) {
			h.Fired["hook_store"]++
			return nil, false
		}
	}
	if s.IdentityOverwrite {
		vm.GlobalValueLoadOverwriteFunc = func(name string, curVal *ds.VMValue) *ds.VMValue {
			h.Fired["hook_overwrite"]++
			return curVal
		}
	}
	if s.IdentityDetail {
		vm.Config.CustomDetailRewriteFunc = func(ctx *ds.Context, curDetail string, span ds.BufferSpan, data []byte, off int) string {
			h.Fired["detail_rewrite"]++
			return curDetail
		}
	}
	if s.IdentitySpan {
		vm.Config.CustomDetailSpanRewriteFunc = func(ctx *ds.Context, def string, span ds.BufferSpan, isRoot bool, data []byte, off int) string {
			h.Fired["span_rewrite"]++
			return def
		}
	}
	if s.Globals {
		vm.GlobalValueLoadFunc = func(name string) *ds.VMValue {
			switch name {
			case "g1":
				return ds.NewIntVal(7)
			case "全局":
				return ds.NewStrVal("G")
			case "gcv":
				return ds.NewComputedVal("g1 + 1")
			}
			if v, ok := h.GlobalStore[name]; ok {
				return v
			}
			return nil
		}
		vm.GlobalValueStoreFunc = func(name string, v *ds.VMValue) {
			h.GlobalStore[name] = v
		}
	}
	if s.StLog {
		vm.Config.CallbackSt = func(typ string, name string, val *ds.VMValue, extra *ds.VMValue, op string, detail string) {
			h.StCalls = append(h.StCalls, fmt.Sprintf("%s|%s|%s|%s|%s|%s", typ, name, Canon(val), Canon(extra), op, detail))
		}
	}
}

func (h *Host) CallLog() string {
	var sb strings.Builder
	for _, c := range h.Calls {
		sb.WriteString(c.What + "(" + strings.Join(c.Groups, ",") + ");")
	}
	return sb.String()
}
