package sim

import (
	"encoding/json"
	"fmt"
	"regexp"
	"sort"
	"strconv"
	"strings"

	ds "github.com/sealdice/dicescript"
	"golang.org/x/exp/rand"
)

// C04 — every dice outcome is legal and equals what its displayed dice imply.
//
// The die source is the lever: a real seeded PCG stream, faces chosen by the simulator (all-low,
// all-high, alternating, "explode r rounds then stop", uniform), or min/max mode. The dice ledger
// records every die drawn; a rulebook written from the guide recomputes each family's total from
// the drawn faces.

type DiceSpec struct {
	Fam    string `json:"f"`           // common | coc | fate | wod | dc
	Via    string `json:"via"`         // func | vm
	Source string `json:"src"`         // pcg | low | high | alt | explode | uniform | min | max
	R      int    `json:"r,omitempty"` // explode: rounds
	Seed   uint64 `json:"seed"`
	// common
	Times, Sides   int64
	NoSides        bool  `json:",omitempty"` // VM only: sides omitted (Nd...), taken from the default-sides expression
	DefExpr        bool  `json:",omitempty"` // ... which is configured as the text of Sides (else the built-in 100)
	Keep           int   `json:",omitempty"` // 0 none, 1 kl, 2 kh, 3 dl, 4 dh
	KeepN          int64 `json:",omitempty"`
	HasMin, HasMax bool  `json:",omitempty"`
	Min, Max       int64 `json:",omitempty"`
	// coc
	Bonus bool  `json:",omitempty"`
	N     int64 `json:",omitempty"`
	// wod / dc
	Pool, AddLine, Points, Threshold int64 `json:",omitempty"`
	LE                               bool  `json:",omitempty"`
	HasPoints, HasThreshold          bool  `json:",omitempty"`
	// wod, VM only: an earlier k/q suffix in the same term, overridden by the effective one that
	// follows it (the grammar takes the suffixes in any order and number)
	PreKind string `json:",omitempty"`
	PreVal  int64  `json:",omitempty"`
	// wod / dc, VM only: the pool is written as a nested pool term '(<Pool>a0m<NestM>k1)', whose value is
	// Pool by construction (every die of it succeeds, none is added): a term inside a term
	NestM int64 `json:",omitempty"`
	// NestOp: which operand is the nested term: "" = the pool, "thr" = the k/q threshold (wod)
	NestOp string `json:",omitempty"`
}

type C04Scenario struct {
	Rolls []DiceSpec
}

func genDiceSpec(r *Rng) DiceSpec {
	d := DiceSpec{Seed: r.U64()}
	d.Via = Pick(r, []string{"func", "vm", "vm"})
	d.Source = Pick(r, []string{"pcg", "pcg", "low", "high", "alt", "explode", "uniform", "uniform", "min", "max"})
	d.R = r.Range(1, 5)
	bnd := func(vals ...int64) int64 { return vals[r.Intn(len(vals))] }
	switch r.Intn(10) {
	case 0, 1, 2, 3:
		d.Fam = "common"
		d.Times = bnd(1, 1, 2, 3, 4, 5, 8, 10, 0, -1, 30)
		d.Sides = bnd(1, 2, 3, 4, 6, 8, 10, 12, 20, 100, 7, 0, -3, 1000000007, 9223372036854775806)
		if r.Chance(1, 12) {
			d.Sides = int64(r.U64() >> uint(r.Range(1, 60)))
		}
		if r.Chance(3, 5) {
			d.Keep = r.Range(1, 4)
			d.KeepN = bnd(1, 1, 2, 3, 0, -1, d.Times, d.Times+1, d.Times-1)
		}
		if r.Chance(1, 4) {
			d.HasMin, d.Min = true, bnd(1, 2, 3, 5, 0, -2, d.Sides, d.Sides+1)
		}
		if r.Chance(1, 4) {
			d.HasMax, d.Max = true, bnd(1, 2, 3, 5, 0, d.Sides-1, d.Sides+5)
		}
		if d.Via == "vm" && d.Times >= 1 && d.Sides >= 1 && d.Sides <= 1000 && r.Chance(1, 4) {
			// the Nd form: sides come from the default-sides expression (100 unless configured)
			d.NoSides = true
			d.DefExpr = r.Bool()
			if !d.DefExpr {
				d.Sides = 100
			}
			if d.HasMin && d.HasMax {
				d.HasMax = false
			}
		}
	case 4, 5:
		d.Fam = "coc"
		d.Bonus = r.Bool()
		d.N = bnd(1, 1, 2, 3, 5, 0, 10)
	case 6:
		d.Fam = "fate"
	case 7, 8:
		d.Fam = "wod"
		d.Pool = bnd(1, 2, 3, 5, 8, 10, 14, 15, 20, 0, 20000, 20001)
		d.AddLine = bnd(0, 2, 5, 8, 9, 10, 11, 1, -1)
		d.Points, d.HasPoints = 10, r.Bool()
		if d.HasPoints {
			d.Points = bnd(10, 6, 8, 12, 2, 1, 0)
		}
		d.Threshold, d.HasThreshold = 8, r.Bool()
		if d.HasThreshold {
			d.Threshold = bnd(8, 6, 2, 1, 10, 0)
			d.LE = r.Bool()
			if d.Via == "vm" && r.Chance(1, 3) {
				d.PreKind, d.PreVal = Pick(r, []string{"k", "q"}), bnd(8, 6, 2, 3, 5, 10, 1)
			}
		}
		if d.Source == "max" || d.Source == "high" {
			// every die explodes forever when the top face reaches the add line: known C07 finding, kept out
			if d.AddLine != 0 && d.AddLine <= d.Points {
				d.Source = "explode"
			}
		}
		if d.Pool > 100 && (d.AddLine != 0 && d.AddLine <= 3) {
			d.Pool = 20
		}
	default:
		d.Fam = "dc"
		d.Pool = bnd(1, 2, 3, 5, 8, 14, 15, 0, 20001)
		d.AddLine = bnd(2, 5, 8, 10, 11, 1, 0, 12)
		d.Points, d.HasPoints = 10, r.Bool()
		if d.HasPoints {
			d.Points = bnd(10, 6, 12, 20, 2, 1, 0)
		}
		if d.Source == "max" || d.Source == "high" {
			if d.AddLine <= d.Points {
				d.Source = "explode"
			}
		}
	}
	if (d.Fam == "wod" || d.Fam == "dc") && d.Via == "vm" && r.Chance(1, 4) {
		d.NestM = bnd(100, 6, 20, 3, 1000)
		if d.Fam == "wod" && d.HasThreshold && r.Bool() {
			d.NestOp = "thr"
		}
	}
	// exploding pools with a low add line grow geometrically under a real stream too: keep them small
	if (d.Fam == "wod" || d.Fam == "dc") && d.AddLine >= 2 && d.Points > 0 && d.AddLine*2 <= d.Points+1 && d.Source != "explode" && d.Source != "low" && d.Source != "min" {
		d.Source = "explode"
	}
	return d
}

func c04Gen(seed uint64, tier string) any {
	r := NewRng(seed)
	sc := &C04Scenario{}
	n := r.Range(4, 12)
	for i := 0; i < n; i++ {
		sc.Rolls = append(sc.Rolls, genDiceSpec(r))
	}
	return sc
}

// term renders the VM syntax of a spec.
func (d *DiceSpec) term() string {
	p := func(v int64) string {
		if v < 0 {
			return "(" + strconv.FormatInt(v, 10) + ")"
		}
		return strconv.FormatInt(v, 10)
	}
	switch d.Fam {
	case "common":
		s := p(d.Times) + "d" + p(d.Sides)
		if d.NoSides {
			s = p(d.Times) + "d"
		}
		switch d.Keep {
		case 1:
			s += "kl" + p(d.KeepN)
		case 2:
			s += "kh" + p(d.KeepN)
		case 3:
			s += "dl" + p(d.KeepN)
		case 4:
			s += "dh" + p(d.KeepN)
		}
		if d.HasMin {
			s += "min" + p(d.Min)
		}
		if d.HasMax {
			s += "max" + p(d.Max)
		}
		return s
	case "coc":
		if d.Bonus {
			return "b" + p(d.N)
		}
		return "p" + p(d.N)
	case "fate":
		return "f"
	case "wod":
		s := d.poolText(p) + "a" + p(d.AddLine)
		if d.HasPoints {
			s += "m" + p(d.Points)
		}
		if d.HasThreshold {
			if d.PreKind != "" && d.Via == "vm" {
				s += d.PreKind + p(d.PreVal)
			}
			if d.LE {
				s += "q" + d.thrText(p)
			} else {
				s += "k" + d.thrText(p)
			}
		}
		return s
	default:
		s := d.poolText(p) + "c" + p(d.AddLine)
		if d.HasPoints {
			s += "m" + p(d.Points)
		}
		return s
	}
}

func (d *DiceSpec) poolText(p func(int64) string) string {
	if d.NestOp == "" && d.nestN() > 0 {
		return "(" + p(d.Pool) + "a0m" + p(d.NestM) + "k1)"
	}
	return p(d.Pool)
}

func (d *DiceSpec) thrText(p func(int64) string) string {
	if d.NestOp == "thr" && d.nestN() > 0 {
		return "(" + p(d.Threshold) + "a0m" + p(d.NestM) + "k1)"
	}
	return p(d.Threshold)
}

// nestN: the number of dice the nested operand rolls (= its value), 0 if no operand is nested.
func (d *DiceSpec) nestN() int64 {
	if d.NestM <= 0 || d.Via != "vm" {
		return 0
	}
	switch d.NestOp {
	case "":
		if d.Pool >= 1 && d.Pool <= 12 {
			return d.Pool
		}
	case "thr":
		if d.Fam == "wod" && d.HasThreshold && d.Threshold >= 1 && d.Threshold <= 12 {
			return d.Threshold
		}
	}
	return 0
}

func (d *DiceSpec) nested() bool { return d.nestN() > 0 }

// legal says whether the parameters are legal (VM-level rules).
func (d *DiceSpec) legal() bool {
	switch d.Fam {
	case "common":
		if d.Times <= 0 || d.Sides <= 0 {
			return false
		}
		if d.Keep != 0 && d.KeepN <= 0 {
			return false
		}
		return true
	case "coc":
		return d.N >= 0
	case "fate":
		return true
	case "wod":
		return d.Pool >= 1 && d.Pool <= 20000 && (d.AddLine == 0 || d.AddLine >= 2) && d.Points >= 1 && d.Threshold >= 1
	default:
		return d.Pool >= 1 && d.Pool <= 20000 && d.AddLine >= 2 && d.Points >= 1
	}
}

type ruleResult struct {
	total  int64
	draws  int64 // how many dice the rule says were rolled, given the faces
	shown  []int64
	ok     bool
	reason string
	// wod with an overridden earlier threshold of the other direction: the reading in which both
	// thresholds count is accepted as well as "the last one decides"
	hasAlt bool
	alt    int64
}

// rulebook recomputes the total of a family from the faces that were drawn.
func rulebook(d *DiceSpec, faces []int64) ruleResult {
	switch d.Fam {
	case "common":
		if int64(len(faces)) != d.Times {
			return ruleResult{reason: fmt.Sprintf("%d dice drawn, the rule rolls %d", len(faces), d.Times)}
		}
		cl := make([]int64, len(faces))
		for i, f := range faces {
			if d.HasMax && f > d.Max {
				f = d.Max
			}
			if d.HasMin && f < d.Min {
				f = d.Min
			}
			cl[i] = f
		}
		sorted := append([]int64(nil), cl...)
		sort.Slice(sorted, func(i, j int) bool { return sorted[i] < sorted[j] })
		keep := d.Times
		fromLow := true
		switch d.Keep {
		case 1:
			keep, fromLow = d.KeepN, true
		case 2:
			keep, fromLow = d.KeepN, false
		case 3:
			keep, fromLow = d.Times-d.KeepN, false
		case 4:
			keep, fromLow = d.Times-d.KeepN, true
		}
		if keep < 0 {
			keep = 0
		}
		if keep > d.Times {
			keep = d.Times
		}
		var total int64
		for i := int64(0); i < keep; i++ {
			if fromLow {
				total += sorted[i]
			} else {
				total += sorted[int64(len(sorted))-1-i]
			}
		}
		return ruleResult{total: total, draws: d.Times, shown: cl, ok: true}
	case "coc":
		if int64(len(faces)) != 1+d.N {
			return ruleResult{reason: fmt.Sprintf("%d dice drawn, the rule rolls 1+%d", len(faces), d.N)}
		}
		r := faces[0]
		units := r % 10
		best := r
		for _, t := range faces[1:] {
			v := (t%10)*10 + units
			if v == 0 {
				v = 100
			}
			if d.Bonus && v < best || !d.Bonus && v > best {
				best = v
			}
		}
		shown := []int64{r}
		for _, t := range faces[1:] {
			shown = append(shown, t%10)
		}
		return ruleResult{total: best, draws: 1 + d.N, shown: shown, ok: true}
	case "fate":
		if len(faces) != 4 {
			return ruleResult{reason: fmt.Sprintf("%d dice drawn, Fate rolls 4", len(faces))}
		}
		var total int64
		var shown []int64
		for _, f := range faces {
			total += f - 2
			shown = append(shown, f-2)
		}
		return ruleResult{total: total, draws: 4, shown: shown, ok: true}
	case "wod":
		pool := d.Pool
		i := int64(0)
		var succ, both int64
		preOpposite := d.Via == "vm" && d.HasThreshold && (d.PreKind == "k" && d.LE || d.PreKind == "q" && !d.LE)
		for pool > 0 {
			if i+pool > int64(len(faces)) {
				return ruleResult{reason: fmt.Sprintf("round needs %d dice at offset %d, only %d drawn", pool, i, len(faces))}
			}
			var add int64
			for _, f := range faces[i : i+pool] {
				if d.AddLine != 0 && f >= d.AddLine {
					add++
				}
				hit := !d.LE && f >= d.Threshold || d.LE && f <= d.Threshold
				if hit {
					succ++
				}
				if hit || preOpposite && (d.PreKind == "k" && f >= d.PreVal || d.PreKind == "q" && f <= d.PreVal) {
					both++
				}
			}
			i += pool
			pool = add
		}
		if i != int64(len(faces)) {
			return ruleResult{reason: fmt.Sprintf("%d dice drawn, the rounds account for %d", len(faces), i)}
		}
		return ruleResult{total: succ, draws: i, shown: faces, ok: true, hasAlt: preOpposite, alt: both}
	default:
		pool := d.Pool
		i := int64(0)
		var total int64
		for pool > 0 {
			if i+pool > int64(len(faces)) {
				return ruleResult{reason: fmt.Sprintf("round needs %d dice at offset %d, only %d drawn", pool, i, len(faces))}
			}
			var add, mx int64
			for _, f := range faces[i : i+pool] {
				if f >= d.AddLine {
					add++
				}
				if f > mx {
					mx = f
				}
			}
			if add > 0 {
				total += 10
			} else {
				total += mx
			}
			i += pool
			pool = add
		}
		if i != int64(len(faces)) {
			return ruleResult{reason: fmt.Sprintf("%d dice drawn, the rounds account for %d", len(faces), i)}
		}
		return ruleResult{total: total, draws: i, shown: faces, ok: true}
	}
}

var reInts = regexp.MustCompile(`-?\d+`)

// shownDice extracts the individual dice a detail text lists (nil if the text does not list dice).
func shownDice(d *DiceSpec, text string) ([]int64, bool) {
	var out []int64
	switch d.Fam {
	case "common":
		for _, m := range reInts.FindAllString(text, -1) {
			v, _ := strconv.ParseInt(m, 10, 64)
			out = append(out, v)
		}
		return out, true
	case "coc":
		i := strings.Index(text, "D100=")
		if i < 0 {
			return nil, false
		}
		for _, m := range reInts.FindAllString(text[i+5:], -1) {
			v, _ := strconv.ParseInt(m, 10, 64)
			out = append(out, v)
		}
		return out, true
	case "fate":
		for _, c := range text {
			switch c {
			case '-':
				out = append(out, -1)
			case '0':
				out = append(out, 0)
			case '+':
				out = append(out, 1)
			}
		}
		return out, true
	default:
		i := strings.Index(text, "{")
		if i < 0 {
			return nil, false
		}
		for _, m := range reInts.FindAllString(text[i:], -1) {
			v, _ := strconv.ParseInt(m, 10, 64)
			out = append(out, v)
		}
		return out, true
	}
}

func sameMultiset(a, b []int64) bool {
	if len(a) != len(b) {
		return false
	}
	x := append([]int64(nil), a...)
	y := append([]int64(nil), b...)
	sort.Slice(x, func(i, j int) bool { return x[i] < x[j] })
	sort.Slice(y, func(i, j int) bool { return y[i] < y[j] })
	for i := range x {
		if x[i] != y[i] {
			return false
		}
	}
	return true
}

// forcePolicy returns the face chooser for a source mode.
func forcePolicy(d *DiceSpec) func(sides int64) int64 {
	n := 0
	r := NewRng(d.Seed)
	switch d.Source {
	case "low":
		return func(s int64) int64 { return 1 }
	case "high":
		return func(s int64) int64 { return s }
	case "alt":
		return func(s int64) int64 {
			n++
			if n%2 == 1 {
				return s
			}
			return 1
		}
	case "uniform":
		return func(s int64) int64 { return int64(r.U64()%uint64(s)) + 1 }
	case "explode":
		// the first R rounds: every die reaches the add line; afterwards lowest faces
		budget := int64(0)
		pool := d.Pool
		for i := 0; i < d.R && i < 6; i++ {
			budget += pool
			if budget > 300 {
				break
			}
		}
		var k int64
		return func(s int64) int64 {
			k++
			if k <= budget && d.AddLine >= 1 && d.AddLine <= s {
				// alternate between exactly the add line and the top face
				if k%2 == 0 {
					return d.AddLine
				}
				return s
			}
			if r.Chance(1, 3) && d.AddLine > 1 && d.AddLine-1 <= s {
				return d.AddLine - 1
			}
			return 1
		}
	}
	return nil
}

func c04Exec(raw json.RawMessage, res *RunResult) {
	var sc C04Scenario
	if err := json.Unmarshal(raw, &sc); err != nil {
		res.Violate("harness-scenario", "bad scenario: %v", err)
		return
	}
	dg := &Digest{}
	ds.VerifSortedRange = false // Range is sorted by the library itself since the C06 fix; the real loop runs
	m := &Meter{KeepLedger: true, Budget: 200_000}
	m.Install()
	defer Uninstall()
	var key []string
	nontrivial := false
	for idx := range sc.Rolls {
		d := &sc.Rolls[idx]
		key = append(key, d.term()+"/"+d.Via+"/"+d.Source)
		ResetGlobals(d.Seed)
		m.Reset()
		m.Force = forcePolicy(d)
		mode := 0
		if d.Source == "min" {
			mode = -1
		}
		if d.Source == "max" {
			mode = 1
		}
		var total int64
		var text string
		var err error
		var spanRet *ds.VMValue
		legal := d.legal()
		src := &rand.PCGSource{}
		src.Seed(d.Seed)
		var own *rand.PCGSource
		res.Fault("force_die_" + d.Source)
		p, cancelled, _, psig, pmsg := Guard(func() {
			if d.Via == "func" {
				own = src
				if !legal {
					return // the exported functions document no validation of their own; legality is the VM's job
				}
				switch d.Fam {
				case "common":
					var mn, mx *ds.IntType
					if d.HasMin {
						v := ds.IntType(d.Min)
						mn = &v
					}
					if d.HasMax {
						v := ds.IntType(d.Max)
						mx = &v
					}
					var lo, hi ds.IntType
					if d.Keep == 1 || d.Keep == 3 {
						lo = ds.IntType(d.KeepN)
					} else {
						hi = ds.IntType(d.KeepN)
					}
					t, s := ds.RollCommon(src, ds.IntType(d.Times), ds.IntType(d.Sides), mn, mx, ds.IntType(d.Keep), lo, hi, mode)
					total, text = int64(t), s
				case "coc":
					t, s := ds.RollCoC(src, d.Bonus, ds.IntType(d.N), mode)
					total, text = int64(t), s
				case "fate":
					t, s := ds.RollFate(src, mode)
					total, text = int64(t), s
				case "wod":
					t, all, _, s := ds.RollWoD(src, ds.IntType(d.AddLine), ds.IntType(d.Pool), ds.IntType(d.Points), ds.IntType(d.Threshold), !d.LE, mode)
					total, text = int64(t), s
					if int64(all) != int64(len(m.Ledger)) {
						err = fmt.Errorf("RollWoD reports %d dice in total, %d were drawn", all, len(m.Ledger))
					}
				default:
					t, all, _, s := ds.RollDoubleCross(src, ds.IntType(d.AddLine), ds.IntType(d.Pool), ds.IntType(d.Points), mode)
					total, text = int64(t), s
					if int64(all) != int64(len(m.Ledger)) {
						err = fmt.Errorf("RollDoubleCross reports %d dice in total, %d were drawn", all, len(m.Ledger))
					}
				}
				return
			}
			cfg := CfgSpec{WoD: true, CoC: true, Fate: true, DC: true, Seeded: true, SeedA: d.Seed, SeedB: d.Seed ^ 99, Min: mode == -1, Max: mode == 1}
			if d.NoSides && d.DefExpr {
				cfg.DefaultSide = strconv.FormatInt(d.Sides, 10)
			}
			vm := cfg.NewVM()
			own = vm.RandSrc
			err = vm.Run(d.term())
			if err == nil {
				if strings.TrimSpace(vm.RestInput) != "" {
					err = fmt.Errorf("<not fully consumed: rest=%q>", vm.RestInput)
					return
				}
				if i, ok := vm.Ret.ReadInt(); ok {
					total = int64(i)
				} else {
					err = fmt.Errorf("<result is not an int: %s>", Canon(vm.Ret))
					return
				}
				first := true
				var b0, e0 ds.IntType
				for _, sp := range vm.DetailSpans {
					// the outermost dice span (a nested pool operand has a span of its own inside it)
					if strings.HasPrefix(sp.Tag, "dice") && (first || sp.Begin <= b0 && sp.End >= e0) {
						spanRet = sp.Ret
						text = sp.Text
						b0, e0, first = sp.Begin, sp.End, false
					}
				}
			}
		})
		res.Evals++
		res.Ticks += m.Ticks
		ledger := append([]Die(nil), m.Ledger...)
		m.Force = nil
		dg.Add("roll", d.term(), d.Via, d.Source, fmt.Sprint(total), text, fmt.Sprint(err))
		if cancelled || m.Cancelled {
			res.Probe("cancelled_by_clock")
			continue
		}
		if p {
			res.Violate("dice-"+psig, "%s via %s panicked: %s", d.term(), d.Via, pmsg)
			continue
		}
		what := fmt.Sprintf("%s via %s, die source %s", d.term(), d.Via, d.Source)
		if d.Via == "func" && !legal {
			continue
		}
		if err != nil && strings.HasPrefix(err.Error(), "<") {
			res.Probe("term_not_parsed_as_dice")
			continue
		}
		if !legal {
			res.Probe("illegal_parameters")
			if err == nil {
				res.Violate("illegal-accepted@"+d.Fam, "%s: illegal parameters produced the number %d instead of an error", what, total)
			} else if len(ledger) > 0 && !(d.nested() && len(ledger) <= int(d.nestN())) {
				// (a nested pool operand is a term of its own and rolls before the outer parameters are looked at)
				res.Violate("illegal-rolled@"+d.Fam, "%s: rejected (%v) but %d dice were drawn first", what, err, len(ledger))
			}
			continue
		}
		if err != nil {
			if strings.Contains(err.Error(), "reports") {
				res.Violate("count-mismatch@"+d.Fam, "%s: %v", what, err)
				continue
			}
			// a legal tuple may still be refused for size (budget); nothing to check then
			res.Probe("legal_but_refused")
			continue
		}
		if d.nested() {
			// the nested operand's dice come first: Pool dice of NestM sides
			nn := int(d.nestN())
			bad := len(ledger) < nn
			for i := 0; !bad && i < nn; i++ {
				bad = ledger[i].Sides != d.NestM
			}
			if bad {
				res.Violate("nested-pool-dice@"+d.Fam, "%s: the nested operand must roll %d dice of %d sides first; drawn: %s", what, nn, d.NestM, trunc(fmt.Sprint(ledger), 200))
				continue
			}
			ledger = ledger[nn:]
			res.Probe("nested_pool_term")
		}
		var faces []int64
		for _, e := range ledger {
			if (d.Fam == "wod" || d.Fam == "dc") && e.Sides != d.Points {
				res.Violate("die-sides-mismatch@"+d.Fam, "%s: the term rolls d%d, a die of %d sides was drawn (showing %d)", what, d.Points, e.Sides, e.Face)
				break
			}
			// (1) legality of every face
			if e.Sides > 0 && (e.Face < 1 || e.Face > e.Sides) {
				res.Violate("face-out-of-range@"+d.Fam, "%s: a d%d showed %d", what, e.Sides, e.Face)
			}
			if d.Via == "vm" || d.Via == "func" {
				if e.Mode == 0 && e.Src != own {
					res.Violate("foreign-source@"+d.Fam, "%s: a die was drawn from a generator that is not the caller's", what)
				}
			}
			faces = append(faces, e.Face)
		}
		if mode != 0 && d.Fam == "coc" {
			// min/max mode draws nothing; the dice a mode settles on are the ones it displays (the
			// penalty tens die of min-mode is shown as 0, the face that minimises a penalty roll)
			if shown, lists := shownDice(d, text); lists && len(shown) == len(faces) {
				for i := 1; i < len(shown); i++ {
					faces[i] = shown[i]
					if faces[i] == 0 {
						faces[i] = 10
					}
				}
			}
		}
		rr := rulebook(d, faces)
		if !rr.ok {
			res.Violate("draw-count@"+d.Fam, "%s: %s (faces %v)", what, rr.reason, trunc(fmt.Sprint(faces), 200))
			continue
		}
		nontrivial = nontrivial || len(faces) > 1
		if rr.hasAlt && rr.alt == total && rr.total != total {
			res.Probe("wod_both_thresholds_reading")
			rr.total = total
		}
		if rr.total != total {
			res.Violate("total-mismatch@"+d.Fam, "%s: returned %d, the rule gives %d for the drawn faces %v\n  detail=%q", what, total, rr.total, trunc(fmt.Sprint(faces), 200), trunc(text, 200))
		}
		if spanRet != nil {
			if i, ok := spanRet.ReadInt(); !ok || int64(i) != rr.total {
				res.Violate("annotation-mismatch@"+d.Fam, "%s: the annotation's value is %s, the rule gives %d", what, Canon(spanRet), rr.total)
			}
		}
		// (4) dice shown in the text are the drawn (clamped) dice, each once
		if text != "" {
			if shown, lists := shownDice(d, text); lists {
				exp := rr.shown
				if (d.Fam == "wod" || d.Fam == "dc") && (d.Pool >= 15 || len(faces) > 100) {
					lists = false
				}
				if lists && !sameMultiset(shown, exp) {
					res.Violate("shown-dice-mismatch@"+d.Fam, "%s: the text lists %v, the dice drawn (after clamping) are %v\n  detail=%q", what, trunc(fmt.Sprint(shown), 160), trunc(fmt.Sprint(exp), 160), trunc(text, 200))
				}
			}
		}
		if d.Fam == "wod" || d.Fam == "dc" {
			rounds := 0
			pool := d.Pool
			i := int64(0)
			for pool > 0 && i < int64(len(faces)) {
				rounds++
				var add int64
				for _, f := range faces[i : i+pool] {
					if d.AddLine != 0 && f >= d.AddLine {
						add++
					}
				}
				i += pool
				pool = add
			}
			if rounds >= 3 {
				res.Probe("exploded_3_or_more_rounds")
			}
		}
		if d.Keep != 0 {
			res.Probe("keep_drop_modifier")
		}
		res.State(HashStr(d.Fam + d.Source + d.Via + fmt.Sprint(len(faces) > 1, d.Keep, d.HasMin, d.HasMax)))
	}
	res.Digest = dg.Hex()
	res.Nontrivial = nontrivial
	res.CaseKey = HashStr(strings.Join(key, "|"))
}

func c04Shrink(raw json.RawMessage) []json.RawMessage {
	var sc C04Scenario
	if json.Unmarshal(raw, &sc) != nil {
		return nil
	}
	var out []json.RawMessage
	if len(sc.Rolls) > 1 {
		for i := range sc.Rolls {
			out = append(out, MustJSON(&C04Scenario{Rolls: []DiceSpec{sc.Rolls[i]}}))
		}
		return out
	}
	d := sc.Rolls[0]
	try := func(f func(x *DiceSpec)) {
		x := d
		f(&x)
		out = append(out, MustJSON(&C04Scenario{Rolls: []DiceSpec{x}}))
	}
	if d.Times > 1 {
		try(func(x *DiceSpec) { x.Times = x.Times / 2 })
		try(func(x *DiceSpec) { x.Times-- })
	}
	if d.Pool > 1 {
		try(func(x *DiceSpec) { x.Pool = x.Pool / 2 })
		try(func(x *DiceSpec) { x.Pool-- })
	}
	if d.Sides > 2 {
		try(func(x *DiceSpec) { x.Sides = x.Sides / 2 })
	}
	if d.HasMin {
		try(func(x *DiceSpec) { x.HasMin = false })
	}
	if d.HasMax {
		try(func(x *DiceSpec) { x.HasMax = false })
	}
	if d.Keep != 0 {
		try(func(x *DiceSpec) { x.Keep = 0 })
	}
	if d.N > 1 {
		try(func(x *DiceSpec) { x.N-- })
	}
	if d.R > 1 {
		try(func(x *DiceSpec) { x.R-- })
	}
	return out
}

func init() {
	Register(&Check{
		ID: "C04", Level: "exploration",
		QuickRuns: 60000, ThoroughRuns: 3000000,
		Gen: c04Gen, Exec: c04Exec, Shrink: c04Shrink,
		Rule: "one case = 4-12 dice rolls, each a (family, parameters, entry point, die source) tuple: XdY with keep/drop/min/max, CoC bonus/penalty, Fate, WoD pools, Double Cross, parameters from a boundary-biased grid plus random large values and illegal tuples, through the exported Roll* functions and through VM syntax; die source = seeded PCG stream, faces chosen by the simulator (all-low, all-high, alternating, 'explode r rounds then stop' alternating between exactly the add line and the top face, uniform) or min/max mode. Oracles over the dice ledger: every face in [1,sides]; number of draws as the rule prescribes for the faces drawn; a rulebook written from the guide applied to the drawn faces gives the returned total and the annotation's value; the dice listed in the detail text are the drawn (clamped) dice, each once; illegal parameters yield an error and zero draws; every die comes from the caller's generator. distinct = distinct roll lists; non-trivial = a roll with more than one die",
		Real: []string{"Roll, RollCommon, RollCoC, RollFate, RollWoD, RollDoubleCross and the VM's dice instructions"},
		Stub: []string{"die faces in forcing runs (any value in 1..sides is a legal outcome; never in min/max mode)"},
		Assumptions: []string{"the rulebook is the guide's wording: keep/drop after per-die clamping, CoC tens selection with 00 = 100, WoD success counting by threshold direction, Double Cross = 10 per critical round + highest of the last round, Fate -1/0/+1"},
	})
}
