package sim

import (
	"encoding/json"
	"fmt"
	"strings"

	ds "github.com/sealdice/dicescript"
)

// C08 (stretch) — compiled code is well-formed on every path, not only the path taken.
//
// Which way a conditional jump goes depends on run-time values, i.e. on dice and variables:
// nondeterminism the simulator may decide. At each jne/je/je.dup the step hook replaces the
// condition on the stack with a truthy or falsy value according to a decision vector
// ("buggify"); for small programs all vectors up to a length bound are enumerated. Monitors at
// every instruction check VM-level invariants; afterwards every function and computed value
// left in the variables is invoked under the same regime, so nested bodies are walked too.
// Paths are sampled, not enumerated exhaustively: a static verifier of the listing would be
// complete but is a different technique.

type C08Scenario struct {
	GlobalSeed uint64
	Cfg        CfgSpec
	Setup      string `json:",omitempty"` // an earlier command on the same VM (variables for Src)
	Src        string
	Vectors    []string // decision vectors: 'T' force truthy, 'F' force falsy, '-' leave; "" = natural run
	AllUpTo    int      // additionally enumerate all vectors of this length (0 = none)
}

var c08Shapes = []string{
	"dct = {}; dct.k = dct['j'] = []", "d || [1,2]", "x = 0; x || [1,2,3]", "i=0; while i<30 { if 1 { i=i+1; continue } }; i", "i=0; while i<30 { if 1 { i=i+1; break } }; i",
	"i=0; while i<3 { i=i+1; if i==2 { continue }; j=0; while j<2 { j=j+1; if j==1 { break } } }", "func ff(p) { if p { return 1 }; 2 }; ff(0)+ff(1)", "func gg() { while 1 { return 5 } }; gg()",
	"1 ? 2", "0 ? 2", "a==1 ? 'A', a==2 ? 'B'", "x = 1 ? 2 : 3", "1 && 2 || 3", "0 || 0 || 5", "`{1 ? 2 : 3}{% if 0 {1} else {2} %}`", "`{% x=1; if x {2} %}{x}`",
	"&cv = 1 ? d6 : d8; cv", "[1,2,3][1 ? 0 : 2]", "{'a': 1 ? 2 : 3}.a", "(1 ? [1] : [2])[0]", "if 1 { 2 } 3", "if 0 {} else if 1 { 5 } else { 6 }; 7", "x = if 1 {2}", "5\n{'a':1", "1 2 3", "a(a", "[x,2]\n[x,2]",
	"while 0 { 1 } 2", "i=0; while i<2 { i=i+1 } i", "if 1 { if 1 { if 1 { 1 } } }", "func ff() { func gg() { 1 }; gg() }; ff()", "&cv = `{% if 1 {2} %}`; cv", "x = 1; x ?? 2 ? 3 : 4", "1 ? 2 ? 3 : 4 : 5", "1 ? 2, 3 ? 4, 5 ? 6",
	"x = 3; 'type:' + (x == 1 ? 'melee', x == 2 ? (x > 10 ? 'far', 1 ? 'near'))", "(0 ? 1, 0 ? (0 ? 2, 1 ? 3))", "func cls(u, v) { return u == 1 ? 'a', u == 2 ? (v > 1 ? 'b', true ? 'c') }; '<' + cls(3, 0) + '>'",
	"1 + (0 ? 1, 0 ? 2)", "[0 ? 1, 1 ? 2, 0 ? (1 ? 3)]", "(1 ? (0 ? 1, 1 ? 2), 0 ? 3) + 1", "`{0 ? 1, 0 ? (0 ? 2, 1 ? 3)}`", "&cv = 0 ? 1, 0 ? (0 ? 2, 1 ? 3); cv",
	"[1?1,1]", "v=0; [v?1,1]", "func t2(a, b) { a + b }; t2(1 ? 2, 3)", "{'a': 1 ? 2, 'b': 3}", "[0 ? 1, 1 ? 2, 3]", "[1 ? 2, 3][0:1]", "`{[1?1,1]}`", "&cv = [0 ? 1, 2]; cv",
	"c=1; while c { func f() { break }; c = 0 }; f()", "c=2; while c { &x = 1; func f() { continue }; c = c - 1 }; f(); c", "i=0; while i<2 { &cv = i ? 1 : 2; func g() { if 1 { break }; 3 }; i=i+1 }; g() + cv", "c=1; while c { func f() { i=0; while i<5 { i=i+1; if i==2 { break } }; i }; c = 0 }; f()",
	"(1 ? 1 : 2)d6", "c = 1; (c ? 3 : 2)d6k1", "(1 ? 2 : true)d4", "2d((1 ? 1 : 2)d6)", "func f(c) { (c ? 1 : 2)d6 }; f(1) + f(0)", "(0 ? 1 : 2)d6", "c = 0; (c ? 2 : 3)d(c ? 4 : 6)", "(1 ? 1 : 2)a8", "(1 ? 2 : 3)c5", "b(1 ? 1 : 2)", "(1 || 2)d6", "(0 ?? 2)d6q1", "(1 ? 1 : 2)d6优势", "&cv = (1 ? 1 : 2)d6; cv",
	"c = 0; c ? `a{;}b` : 2", "if 0 { `x{% ; %}y` }; 3", "i=0; while i<2 { `{;}`; i=i+1 }; i", "func tf(c) { return c ? `a{;}b` : 2 }; tf(0) + tf(1)", "c = 1; c ? `{% // only a comment\n %}` : 5", "0 || `p{;}q`", "c = 0; if c { `{;}{;}` } else if 1 { 7 } else { 8 }", "`{;}` + `{% ; %}` + `{1}`", "&cv = 0 ? `m{;}n` : 4; cv",
	"y = this.x = 1; y", "func fthis() { this.a = 2 }; fthis()", "[this.q = 1, 2]", "7; y = this.x = 1; y", "i = 0; while i < 3 { i = this.c = i + 1 }; i", "`<{% q = this.w = 5 %}>`", "1 + (this.z = 2)", "this.m = this.n = 3", "func gthis(p) { return this.p = p + 1 }; gthis(1) + gthis(2)", "x = (this.y = 4) ? 5 : 6",
	// definitions inside bodies, several per body, and at unusual positions
	"func f(x) { p=1; q=2; &a=5; &b = x ? 1+2+3+4+5+6+7+8 : 0; a + b }; f(0) + f(1)", "func f() { [&a = 1, &b = 0 ? 3 : 4] }; f()", "func f() { func g1() { 1 ? 2 : 3 }; func g2(y) { if y { return 4 }; 5 }; g1() + g2(0) + g2(1) }; f()",
	"&outer = (1 ? 2 : 3) + 1; func f() { &i1 = 0 || 7; &i2 = 1 && 8; func h() { while 0 { } ; 9 }; i1 + i2 + h() }; f() + outer", "func f(x) { if x { &m = x ? 1 : 2; &n = x ?? 3 ? 4 : 5; return m + n }; func z() { 0 ? 1, 1 ? 2 }; z() }; f(0); f(1)",
	"x = 1; `{% func tf() { &ta = x ? 1 : 2; &tb = x ? 3 : 4; ta + tb } %}{tf()}`", "func ap(fn, v) { fn(v) }; func yn(q) { q ? 'y' : 'n' }; ap(yn, 0)",
	"'s' + `{1}{2}{3}` + 't'; func late() { &l1 = 1 ? 2 : 3; &l2 = 0 ? 4 : 5; l1 * l2 }; late()", "a1=1;a2=2;a3=3;a4=4;a5=5;a6=6;a7=7;a8=8; func deepf() { func d1() { func d2() { &d3 = a1 ? a2 : a3; &d4 = a4 ? a5 : a6; d3 + d4 }; d2() }; d1() }; deepf()",
	"c = 1; while c { func wf() { &w1 = c ? 1 : 2; &w2 = c ? 3 : 4; w1 + w2 }; c = 0 }; wf()", "if 1 { func inIf() { &q1 = 1 || 2; &q2 = 0 || 3; q1 + q2 } } else { func inElse() { 1 } }; inIf()",
	"^st 力量60 敏捷70", "^st 力量+1d4", "^st &手枪=1d6+2", "^st 力量*1.5: 3", "2d6k1 + d20优势", "3a8 + 2c5 + b1 + f", "(1 || 2)d(0 || 6)", "[1,2][0] || [3][0]", "xs=[1,2]; xs[0] = xs[1] = 5; xs",
}

func c08Gen(seed uint64, tier string) any {
	r := NewRng(seed)
	cfg := GenCfg(r).Tame()
	cfg.Seeded = true
	cfg.OpLimit = 20000
	cfg.NoStmts = false
	sc := &C08Scenario{GlobalSeed: r.U64(), Cfg: cfg}
	switch r.Intn(5) {
	case 0:
		sc.Src = Pick(r, c08Shapes)
		if r.Chance(1, 3) {
			sc.Setup = "dct = {'j': [1]}; xs = [1,2,3]; _u = 1; x = 0; obj = {'a': {'b': 1}}"
			sc.Src = Pick(r, []string{
				"dct.k = dct['j'] = []", "dct['a'] = dct['b'] = 1", "dct.k = dct.j = 2", "xs[0] = xs[1] = 5", "obj.a.b = obj.a.c = 3", "xs[0:1] = xs[1:2] = [9]",
				"_u || ?x", "_u || )", "_u && ?", "_u || ", "x || ?1", "_u ? ", "_u ? 1 : ", "_u ? 1, ", "1 || 2 || ?", "(_u || ?)", "[_u || ?]", "`{_u || ?}`", "_u ?? ", "_u || [1,", "_u || {'a':", "_u||d(",
				"if _u { 1 } else", "if _u {", "while _u { break", "func ff() { _u ||", "&cv = _u || ?", "i=0; while i<3 { i=i+1; if i==1 { continue }; _u || ? }",
			})
		}
	default:
		o := SwarmOpts(r, cfg)
		o.Stmts, o.Funcs, o.Computed = true, true, true
		o.MaxDepth = r.Range(2, 4)
		o.BrokenTail = Pick(r, []int{0, 300, 600})
		o.BigNums = false
		g := NewProgGen(r.Fork(), o)
		sc.Src = g.Program(r.Range(1, 5))
	}
	sc.Vectors = []string{""}
	for i := 0; i < 10; i++ {
		n := r.Range(1, 12)
		b := make([]byte, n)
		for j := range b {
			b[j] = "TF-"[r.Intn(3)]
		}
		sc.Vectors = append(sc.Vectors, string(b))
	}
	sc.AllUpTo = 5
	if tier == "thorough" {
		sc.AllUpTo = 8
	}
	return sc
}

// pops returns how many operands an instruction takes from the stack, and how many it needs present.
func opOperands(op ds.VerifOp) (need int, known bool) {
	n := func() int {
		if v, ok := op.Value.(ds.IntType); ok {
			return int(v)
		}
		return 0
	}
	switch op.Name {
	case "push.int", "push.flt", "push.str", "push.null", "push.this", "push.global", "push.func", "push.computed", "push.last", "push.def_expr",
		"ld", "ld.d", "ld.raw", "dice.init", "dice.custom", "dice.fate", "wod.init", "dc.setInit", "halt", "ret", "nop", "mark.detail", "jmp",
		"block.push", "block.pop", "fstr.block.push", "fstr.block.pop":
		return 0, true
	case "push.arr", "ld.fs", "popn":
		return n(), true
	case "push.dict":
		return 2 * n(), true
	case "push.range":
		return 2, true
	case "store", "store.local", "attr.get", "neg", "pos", "je", "je.dup", "jne", "pop",
		"dice.setTimes", "dice.setKeepLow", "dice.setKeepHigh", "dice.setDropLow", "dice.setDropHigh", "dice.setMin", "dice.setMax", "dice",
		"coc.bonus", "coc.penalty", "wod.pool", "wod.points", "wod.threshold", "wod.thresholdQ", "dice.wod", "dc.setPool", "dc.setPoints", "dice.dc":
		return 1, true
	case "invoke":
		return n() + 1, true
	case "item.get", "attr.set", "add", "sub", "mul", "div", "mod", "pow", "nullCoalescing", "and", "&", "|",
		"comp.lt", "comp.le", "comp.eq", "comp.ne", "comp.ge", "comp.gt", "st.set", "st.mod", "st.x0":
		return 2, true
	case "item.set", "st.x1":
		return 3, true
	case "slice.get":
		return 4, true
	case "slice.set":
		return 5, true
	}
	return 0, false
}

type c08Monitor struct {
	res      *RunResult
	src      string
	vec      string
	pos      int // conditional jumps seen so far
	forced   int
	depthAt  map[string][2]int // (ctx pointer, opIndex) -> (blocks, holes)
	where    string
	violated bool
}

// loopExit marks signatures of block-balance violations in programs that use break / continue (the
// open finding is specifically about those two statements; the same imbalance anywhere else is new).
func (mo *c08Monitor) loopExit() string {
	if strings.Contains(mo.src, "break") || strings.Contains(mo.src, "continue") {
		return ":with-break-continue"
	}
	return ""
}

func (mo *c08Monitor) fail(sig, format string, args ...any) {
	mo.violated = true
	mo.res.Violate(sig, "%s\n  src=%q\n  decision vector=%q (%s)", fmt.Sprintf(format, args...), mo.src, mo.vec, mo.where)
}

func (mo *c08Monitor) step(s *ds.VerifStep) bool {
	op := ds.VerifOp{Name: ds.VerifOpName(s.Code), Value: s.Code.Value}
	need, known := opOperands(op)
	if !known {
		mo.fail("unknown-instruction:"+op.Name, "instruction %q at %d has no VM semantics known to the monitor", op.Name, s.OpIndex)
		return true
	}
	if s.Top < need {
		mo.fail("stack-underflow@"+op.Name, "instruction %d (%s) needs %d operand(s), the evaluation stack holds %d", s.OpIndex, s.Code.CodeString(), need, s.Top)
		return true
	}
	switch op.Name {
	case "jmp", "je", "je.dup", "jne":
		off, ok := s.Code.Value.(ds.IntType)
		if !ok {
			mo.fail("jump-unpatched@"+op.Name, "instruction %d (%s) has no offset: the jump was never patched", s.OpIndex, op.Name)
			return true
		}
		if off == 0 && op.Name != "jmp" {
			// a conditional jump to the next instruction decides nothing: it still holds the placeholder it
			// was emitted with (every branch the compiler emits contains at least one instruction)
			sig := "jump-unpatched@" + op.Name
			if data, n, ok := ds.VerifParsedInput(s.Ctx); ok && n < len(strings.TrimRight(string(data), " \t\r\n")) && (strings.Contains(string(data), "||") || strings.Contains(string(data), "&&")) {
				// the parser stopped before the end of a text using '||' / '&&': the open finding's shape
				// (code of an abandoned alternative stays behind), kept apart from every other cause
				sig = "jump-unpatched-after-abandoned-logic@" + op.Name
			}
			mo.fail(sig, "instruction %d (%s) has offset 0, the placeholder it was emitted with: the jump was never patched", s.OpIndex, op.Name)
			return true
		}
		tgt := s.OpIndex + int(off) + 1
		if tgt < 0 || tgt > s.CodeLen {
			mo.fail("jump-out-of-bounds@"+op.Name, "instruction %d jumps to %d, the program has %d instructions", s.OpIndex, tgt, s.CodeLen)
			return true
		}
	case "block.pop":
		if s.BlockIndex < 1 {
			mo.fail("block-pop-without-push", "instruction %d closes a block although none is open", s.OpIndex)
			return true
		}
	case "fstr.block.pop":
		if s.FstrBlockIndex < 1 {
			mo.fail("hole-pop-without-push", "instruction %d closes a template hole although none is open", s.OpIndex)
			return true
		}
	case "push.last":
		// needs an earlier pop on this path; the VM reports it as an error itself
	case "halt":
		// falling off the end of a program: every block and template hole opened on this path is closed
		if s.BlockIndex != 0 || s.FstrBlockIndex != 0 {
			mo.fail("open-blocks-at-end"+mo.loopExit(), "the program reaches its end (halt at %d) with %d block(s) and %d template hole(s) still open", s.OpIndex, s.BlockIndex, s.FstrBlockIndex)
			return true
		}
	}
	switch op.Name {
	case "dice.setTimes", "dice.setKeepLow", "dice.setKeepHigh", "dice.setDropLow", "dice.setDropHigh", "dice.setMin", "dice.setMax", "dice", "push.def_expr":
		if s.DiceStateIndex < 0 {
			mo.fail("dice-state-missing@"+op.Name, "instruction %d (%s) uses roll state that no earlier instruction on this path set up", s.OpIndex, op.Name)
			return true
		}
	}
	switch op.Name {
	case "dice", "push.def_expr", "ld.d", "coc.bonus", "coc.penalty", "dice.fate", "dice.wod", "dice.dc":
		if s.DetailsLen < 1 {
			mo.fail("annotation-state-missing@"+op.Name, "instruction %d (%s) writes to an annotation although none was opened on this path", s.OpIndex, op.Name)
			return true
		}
	}
	// the same instruction of the same running program must always see the same number of open blocks
	key := fmt.Sprintf("%p/%d", s.Ctx, s.OpIndex)
	cur := [2]int{s.BlockIndex, s.FstrBlockIndex}
	if prev, ok := mo.depthAt[key]; ok {
		if prev != cur {
			mo.fail("block-depth-differs"+mo.loopExit(), "instruction %d (%s) is reached with %d open blocks / %d open holes, earlier with %d / %d", s.OpIndex, op.Name, cur[0], cur[1], prev[0], prev[1])
			return true
		}
	} else {
		mo.depthAt[key] = cur
	}
	// force the branch
	if op.Name == "jne" || op.Name == "je" || op.Name == "je.dup" {
		if mo.pos < len(mo.vec) {
			d := mo.vec[mo.pos]
			if d == 'T' || d == 'F' {
				if v := ds.VerifStackAt(s.Ctx, s.Top-1); v != nil {
					v.TypeId = ds.VMTypeInt
					if d == 'T' {
						v.Value = ds.IntType(1)
					} else {
						v.Value = ds.IntType(0)
					}
					mo.forced++
				}
			}
		}
		mo.pos++
	}
	return false
}

func c08Exec(raw json.RawMessage, res *RunResult) {
	var sc C08Scenario
	if err := json.Unmarshal(raw, &sc); err != nil {
		res.Violate("harness-scenario", "bad scenario: %v", err)
		return
	}
	dg := &Digest{}
	ds.VerifSortedRange = false // Range is sorted by the library itself since the C06 fix; the real loop runs
	m := &Meter{HugeLimit: 4 << 20}
	m.Install()
	defer Uninstall()
	res.CaseKey = HashStr(sc.Src)
	vecs := append([]string{}, sc.Vectors...)
	// how many conditional jumps does the natural run meet? enumerate all vectors up to that (bounded)
	runOnce := func(vec string) (accepted bool, jumps int) {
		ResetGlobals(sc.GlobalSeed)
		vm := sc.Cfg.NewVM()
		if sc.Setup != "" {
			m.Reset()
			m.Budget = 20_000
			m.OnStep = nil
			DoCmd(vm, Cmd{Kind: "run", Src: sc.Setup})
		}
		mo := &c08Monitor{res: res, src: sc.Src, vec: vec, depthAt: map[string][2]int{}, where: "main program"}
		m.Reset()
		m.Budget = 20_000
		m.OnStep = mo.step
		o := DoCmd(vm, Cmd{Kind: "run", Src: sc.Src})
		res.Evals++
		res.Ticks += m.Ticks
		res.FaultN("force_branch", mo.forced)
		dg.Add("run", vec, o.Key())
		if o.Panic != "" {
			m.OnStep = nil
			return false, 0
		}
		if strings.Contains(o.Err, "语法错误") || (o.Err != "" && m.Steps == 0) {
			m.OnStep = nil
			return false, 0
		}
		if strings.Contains(o.Err, "VM内部错误") && !mo.violated {
			res.Violate("internal-error", "the VM hit an internal fault while executing accepted code: %s\n  src=%q\n  decision vector=%q", o.Err, sc.Src, vec)
		}
		jumps = mo.pos
		// nested bodies: every function and computed value left in the variables
		type callee struct {
			name string
			v    *ds.VMValue
		}
		var cs []callee
		vm.Attrs.Range(func(k string, v *ds.VMValue) bool {
			if v != nil && (v.TypeId == ds.VMTypeFunction || v.TypeId == ds.VMTypeComputedValue) {
				cs = append(cs, callee{k, v})
			}
			return true
		})
		for _, c := range cs {
			call := c.name
			if fd, ok := c.v.ReadFunctionData(); ok {
				args := make([]string, len(fd.Params))
				for i := range args {
					args[i] = "1"
				}
				call = c.name + "(" + strings.Join(args, ",") + ")"
			}
			mo2 := &c08Monitor{res: res, src: sc.Src, vec: vec, depthAt: map[string][2]int{}, where: "then " + call}
			m.Reset()
			m.Budget = 20_000
			m.OnStep = mo2.step
			o2 := DoCmd(vm, Cmd{Kind: "run", Src: call})
			res.Evals++
			res.Ticks += m.Ticks
			res.FaultN("force_branch", mo2.forced)
			res.Probe("nested_body_invoked")
			if strings.Contains(o2.Err, "VM内部错误") && !mo2.violated {
				res.Violate("internal-error", "the VM hit an internal fault while executing the body of %s: %s\n  src=%q\n  decision vector=%q", call, o2.Err, sc.Src, vec)
			}
		}
		m.OnStep = nil
		return true, jumps
	}
	ok, jumps := runOnce("")
	if !ok {
		res.Probe("input_rejected")
		res.Digest = dg.Hex()
		return
	}
	res.Nontrivial = jumps >= 1
	if jumps > 0 && sc.AllUpTo > 0 {
		n := jumps
		if n > sc.AllUpTo {
			n = sc.AllUpTo
		}
		for bits := 0; bits < 1<<uint(n); bits++ {
			b := make([]byte, n)
			for j := 0; j < n; j++ {
				if bits&(1<<uint(j)) != 0 {
					b[j] = 'T'
				} else {
					b[j] = 'F'
				}
			}
			vecs = append(vecs, string(b))
		}
	}
	seen := map[string]bool{"": true}
	paths := 1
	for _, v := range vecs {
		if seen[v] {
			continue
		}
		seen[v] = true
		runOnce(v)
		paths++
		if len(res.Violations) > 3 {
			break
		}
	}
	res.ProbeN("paths_walked", paths)
	res.State(HashStr(fmt.Sprint(jumps)))
	res.Digest = dg.Hex()
}

func c08Shrink(raw json.RawMessage) []json.RawMessage {
	var sc C08Scenario
	if json.Unmarshal(raw, &sc) != nil {
		return nil
	}
	var out []json.RawMessage
	emit := func(f func(s *C08Scenario)) {
		var c C08Scenario
		json.Unmarshal(raw, &c)
		f(&c)
		out = append(out, MustJSON(&c))
	}
	if len(sc.Vectors) > 1 || sc.AllUpTo > 0 {
		emit(func(s *C08Scenario) { s.Vectors = []string{""}; s.AllUpTo = 0 })
		emit(func(s *C08Scenario) { s.AllUpTo = 0 })
		emit(func(s *C08Scenario) { s.Vectors = []string{""} })
		for i := range sc.Vectors {
			i := i
			emit(func(s *C08Scenario) { s.Vectors = []string{s.Vectors[i]}; s.AllUpTo = 0 })
		}
	}
	for _, t := range shrinkText(sc.Src) {
		t := t
		emit(func(s *C08Scenario) { s.Src = t })
	}
	return out
}

func init() {
	Register(&Check{
		ID: "C08", Level: "exploration",
		QuickRuns: 12000, ThoroughRuns: 300000,
		Gen: c08Gen, Exec: c08Exec, Shrink: c08Shrink,
		Rule: "one case = one accepted input (generated programs with nested if/while/break/continue, functions, computed values, ternaries, logic operators, templates with statement holes, valid-prefix-plus-garbage, and a list of fragile shapes) executed under decision vectors: the natural run, 10 random vectors over {force truthy, force falsy, leave} and ALL truthy/falsy vectors up to length min(#conditional jumps, 5) (thorough: 8); the step hook overwrites the condition value before each jne/je/je.dup. Monitors at every instruction of every VM (main and sub): operands present for the opcode, jump offset present (a conditional jump still holding the placeholder offset 0 counts as unpatched) and target inside the program, block/hole pops matched, the same instruction of one running program always reached with the same number of open blocks and holes, roll state / annotation present when used, no opcode without VM semantics, no 'VM internal error' result. After the main program every function and computed value left in the variables is invoked under the same vector. distinct = distinct inputs; non-trivial = at least one conditional jump executed",
		Real: []string{"parser semantic actions (code emission, jump patching), bytecode, VM dispatch"},
		Stub: []string{"branch outcomes (condition values overwritten by the simulator)"},
		Assumptions: []string{"paths are sampled (all vectors only up to the length bound); a forced value can make a later instruction fail with an ordinary type error, which ends that path", "operand counts per opcode are the monitor's table, written from the VM's dispatch loop"},
	})
}
