package sim

import (
	"encoding/hex"
	"encoding/json"
	"fmt"
	"strconv"
	"strings"

	ds "github.com/sealdice/dicescript"
)

// C15 — min-mode and max-mode bracket every roll, consume no randomness, and are attained for
// plain XdY terms. The die source is the lever: zero draws in min/max mode; real streams and
// forced extreme faces must stay inside the bracket.

type C15Scenario struct {
	Terms  []DiceSpec
	Coefs  []int64 // expression = sum Coefs[i]*Terms[i] + Const
	Const  int64
	Seeds  []uint64
	Spaced bool
	Wrap   string `json:",omitempty"` // "" top level | func | computed | nested (function called from a computed value)
	// Switches: roll modes set one after the other on ONE long-lived VM ("" random, "min", "max"), the
	// expression evaluated under each: a host that asks "what is the range of this roll" on its VM
	Switches []string `json:",omitempty"`
}

func c15Gen(seed uint64, tier string) any {
	r := NewRng(seed)
	sc := &C15Scenario{Spaced: r.Bool(), Wrap: Pick(r, []string{"", "", "func", "computed", "nested"})}
	n := r.Range(1, 3)
	for i := 0; i < n; i++ {
		var d DiceSpec
		for {
			d = genDiceSpec(r)
			if (d.Fam == "common" || d.Fam == "coc" || d.Fam == "fate") && d.legal() && d.Times <= 12 && d.N <= 5 {
				break
			}
			// pools that cannot explode are non-exploding terms too: WoD with add line 0, Double Cross with a
			// critical value above the number of sides
			if d.Fam == "wod" && d.AddLine == 0 && d.legal() && d.Pool <= 12 && d.Points <= 1000 {
				d.NestM, d.NestOp = 0, ""
				break
			}
			if d.Fam == "dc" && d.AddLine > d.Points && d.legal() && d.Pool <= 12 && d.Points <= 1000 {
				d.NestM, d.NestOp = 0, ""
				break
			}
		}
		if d.Fam == "common" && d.Sides > 1<<40 {
			d.Sides = 1 << 20
		}
		// keep every quantity far from the integer range: wrap-around is not monotone
		if d.Min > 1<<20 {
			d.Min = 1 << 20
		}
		if d.Max > 1<<20 {
			d.Max = 1 << 20
		}
		if d.Min < -(1 << 20) {
			d.Min = -(1 << 20)
		}
		if d.Max < -(1 << 20) {
			d.Max = -(1 << 20)
		}
		d.Via, d.Source = "vm", "pcg"
		if d.HasMin && d.HasMax {
			if r.Bool() {
				d.HasMax = false // the grammar takes one of min / max per term
			} else {
				d.HasMin = false
			}
		}
		sc.Terms = append(sc.Terms, d)
		sc.Coefs = append(sc.Coefs, int64(Pick(r, []int{1, 1, 1, 2, 3, 0, 10})))
	}
	sc.Const = int64(r.Range(0, 20))
	for i := 0; i < 6; i++ {
		sc.Seeds = append(sc.Seeds, r.U64())
	}
	if r.Chance(1, 2) {
		for i := r.Range(2, 5); i > 0; i-- {
			sc.Switches = append(sc.Switches, Pick(r, []string{"", "min", "max", "min", "max"}))
		}
	}
	return sc
}

func (sc *C15Scenario) expr() string {
	var parts []string
	for i, t := range sc.Terms {
		s := t.term()
		if sc.Coefs[i] != 1 {
			if sc.Spaced {
				s = strconv.FormatInt(sc.Coefs[i], 10) + " * " + s
			} else {
				s = strconv.FormatInt(sc.Coefs[i], 10) + "*" + s
			}
		}
		parts = append(parts, s)
	}
	sep := "+"
	if sc.Spaced {
		sep = " + "
	}
	e := strings.Join(parts, sep)
	if sc.Const != 0 {
		e += sep + strconv.FormatInt(sc.Const, 10)
	}
	// the same expression evaluated inside a sub-VM: the modes are inherited by function bodies and
	// computed values
	switch sc.Wrap {
	case "func":
		return "func rr() { return " + e + " }; rr()"
	case "computed":
		return "&cv = " + e + "; cv"
	case "nested":
		return "func rr() { return " + e + " }; &cv = rr(); cv"
	}
	return e
}

type c15Run struct {
	val   int64
	ok    bool
	err   string
	draws int // dice that consumed a generator (mode 0)
	moved bool
}

// c15DefaultSide is the default-sides expression for the scenario being evaluated ("" = built-in 100).
var c15DefaultSide string

func c15Eval(expr string, mode string, seed uint64, force func(int64) int64, m *Meter) c15Run {
	cfg := CfgSpec{WoD: true, CoC: true, Fate: true, DC: true, Seeded: true, SeedA: seed, SeedB: seed ^ 0x77, Min: mode == "min", Max: mode == "max", DefaultSide: c15DefaultSide}
	ResetGlobals(seed)
	vm := cfg.NewVM()
	return c15EvalOn(vm, expr, force, m)
}

// c15EvalOn evaluates on a given VM under whatever roll mode its configuration holds now.
func c15EvalOn(vm *ds.Context, expr string, force func(int64) int64, m *Meter) c15Run {
	before, _ := vm.GetCurSeed()
	gBefore := ds.VerifGlobalState()
	m.Reset()
	m.Force = force
	o := DoCmd(vm, Cmd{Kind: "run", Src: expr})
	m.Force = nil
	var r c15Run
	for _, d := range m.Ledger {
		if d.Mode == 0 {
			r.draws++
		}
	}
	after, _ := vm.GetCurSeed()
	r.moved = hex.EncodeToString(before) != hex.EncodeToString(after) || hex.EncodeToString(gBefore) != hex.EncodeToString(ds.VerifGlobalState())
	if o.Err != "" || o.Panic != "" {
		r.err = o.Err + o.Panic
		return r
	}
	if strings.TrimSpace(vm.RestInput) != "" {
		r.err = "rest:" + vm.RestInput
		return r
	}
	if i, ok := vm.Ret.ReadInt(); ok {
		r.val, r.ok = int64(i), true
	} else {
		r.err = "not an int: " + Canon(vm.Ret)
	}
	return r
}

func c15Exec(raw json.RawMessage, res *RunResult) {
	var sc C15Scenario
	if err := json.Unmarshal(raw, &sc); err != nil {
		res.Violate("harness-scenario", "bad scenario: %v", err)
		return
	}
	ds.VerifSortedRange = false // Range is sorted by the library itself since the C06 fix; the real loop runs
	m := &Meter{KeepLedger: true, Budget: 100_000}
	m.Install()
	defer Uninstall()
	// each term alone first (so that a violation is attributed to the family that causes it),
	// the whole expression only when its terms pass
	if len(sc.Terms) > 1 {
		before := len(res.Violations)
		for i := range sc.Terms {
			one := C15Scenario{Terms: []DiceSpec{sc.Terms[i]}, Coefs: []int64{1}, Seeds: sc.Seeds, Spaced: sc.Spaced, Wrap: sc.Wrap, Switches: sc.Switches}
			c15One(&one, m, res)
		}
		if len(res.Violations) > before {
			res.Digest = "term-failed"
			res.CaseKey = HashStr(sc.expr())
			return
		}
	}
	c15One(&sc, m, res)
}

func c15One(scp *C15Scenario, m *Meter, res *RunResult) {
	sc := *scp
	// all default-sides terms of one expression share the VM's default-sides expression
	c15DefaultSide = ""
	for i := range sc.Terms {
		if sc.Terms[i].NoSides {
			if sc.Terms[i].DefExpr && c15DefaultSide == "" {
				c15DefaultSide = strconv.FormatInt(sc.Terms[i].Sides, 10)
			}
		}
	}
	for i := range sc.Terms {
		if sc.Terms[i].NoSides {
			t := sc.Terms[i]
			if c15DefaultSide != "" {
				t.Sides, _ = strconv.ParseInt(c15DefaultSide, 10, 64)
				t.DefExpr = true
			} else {
				t.Sides, t.DefExpr = 100, false
			}
			sc.Terms[i] = t
		}
	}
	defer func() { c15DefaultSide = "" }()
	dg := &Digest{}
	expr := sc.expr()
	fams := map[string]bool{}
	plain := true
	for _, t := range sc.Terms {
		fams[t.Fam] = true
		if t.Fam != "common" {
			plain = false
		}
	}
	famKey := ""
	for _, f := range []string{"common", "coc", "fate", "wod", "dc"} {
		if fams[f] {
			famKey += f + "+"
		}
	}
	famKey = strings.TrimSuffix(famKey, "+")
	defer func() { _ = famKey }()
	if len(sc.Terms) == 1 && sc.Terms[0].Fam == "coc" {
		if sc.Terms[0].Bonus {
			famKey = "coc-bonus"
		} else {
			famKey = "coc-penalty"
		}
	}
	lo := c15Eval(expr, "min", sc.Seeds[0], nil, m)
	hi := c15Eval(expr, "max", sc.Seeds[0], nil, m)
	res.Evals += 2
	dg.Add("minmax", expr, fmt.Sprint(lo.val, lo.err), fmt.Sprint(hi.val, hi.err))
	res.CaseKey = HashStr(expr)
	res.Digest = dg.Hex()
	if !lo.ok || !hi.ok {
		res.Probe("expression_not_evaluable")
		return
	}
	res.Nontrivial = true
	for name, r := range map[string]c15Run{"min": lo, "max": hi} {
		if r.draws > 0 || r.moved {
			res.Violate("mode-consumes-randomness", "%s-mode evaluation of %q drew %d dice from a generator (generator state changed: %v)", name, expr, r.draws, r.moved)
		}
	}
	if lo.val > hi.val {
		res.Violate("min-above-max@"+famKey, "%q: min-mode gives %d, max-mode gives %d", expr, lo.val, hi.val)
	}
	check := func(label string, r c15Run) {
		res.Evals++
		if !r.ok {
			return
		}
		if r.val < lo.val || r.val > hi.val {
			side := "below-min"
			if r.val > hi.val {
				side = "above-max"
			}
			res.Violate("outside-bracket:"+side+"@"+famKey, "%q rolled %d (%s), outside [min-mode %d, max-mode %d]", expr, r.val, label, lo.val, hi.val)
		}
	}
	for _, s := range sc.Seeds {
		check(fmt.Sprintf("seed %d", s), c15Eval(expr, "", s, nil, m))
		res.Fault("force_die_pcg")
	}
	low := c15Eval(expr, "", sc.Seeds[0], func(s int64) int64 { return 1 }, m)
	high := c15Eval(expr, "", sc.Seeds[0], func(s int64) int64 { return s }, m)
	check("every die forced to its lowest face", low)
	check("every die forced to its highest face", high)
	res.Fault("force_die_low")
	res.Fault("force_die_high")
	n := 0
	alt := func(s int64) int64 {
		n++
		if n%2 == 0 {
			return s
		}
		return 1
	}
	check("faces forced alternately highest/lowest", c15Eval(expr, "", sc.Seeds[0], alt, m))
	// CoC tens dice: the extreme outcomes are not at the extreme faces; force the tens die to "0" (face 10)
	if fams["coc"] {
		k := 0
		tens0 := func(s int64) int64 {
			k++
			if s == 10 {
				return 10
			}
			if s == 100 {
				return Pick(NewRng(uint64(k)), []int64{1, 100, 10, 91})
			}
			return 1
		}
		check("CoC tens dice forced to 0, D100 at a boundary", c15Eval(expr, "", sc.Seeds[0], tens0, m))
		res.Fault("force_die_boundary")
	}
	if plain {
		// attained: all-low reproduces min-mode, all-high reproduces max-mode
		if low.ok && low.val != lo.val {
			res.Violate("bound-not-attained:min", "%q: every die at its lowest face gives %d, min-mode gives %d", expr, low.val, lo.val)
		}
		if high.ok && high.val != hi.val {
			res.Violate("bound-not-attained:max", "%q: every die at its highest face gives %d, max-mode gives %d", expr, high.val, hi.val)
		}
		res.Probe("plain_terms_attainment_checked")
	}
	if len(sc.Switches) > 0 {
		// one long-lived VM, the mode switched between evaluations
		cfg := CfgSpec{WoD: true, CoC: true, Fate: true, DC: true, Seeded: true, SeedA: sc.Seeds[1], SeedB: sc.Seeds[1] ^ 0x77, DefaultSide: c15DefaultSide}
		ResetGlobals(sc.Seeds[1])
		vm := cfg.NewVM()
		for k, mode := range sc.Switches {
			vm.Config.DiceMinMode, vm.Config.DiceMaxMode = mode == "min", mode == "max"
			r := c15EvalOn(vm, expr, nil, m)
			res.Evals++
			res.Fault("mode_switch_on_used_vm")
			if !r.ok {
				res.Violate("used-vm:not-evaluable", "%q evaluates on fresh VMs in min and max mode, but fails as evaluation %d on a used VM in mode %q: %s\n  modes so far=%q", expr, k+1, mode, r.err, sc.Switches[:k+1])
				break
			}
			switch mode {
			case "min", "max":
				want := lo.val
				if mode == "max" {
					want = hi.val
				}
				if r.draws > 0 || r.moved {
					res.Violate("mode-consumes-randomness", "%s-mode evaluation %d of %q on a used VM drew %d dice from a generator (generator state changed: %v)\n  modes so far=%q", mode, k+1, expr, r.draws, r.moved, sc.Switches[:k+1])
				}
				if r.val != want {
					res.Violate("used-vm:bound-differs:"+mode, "%q in %s mode gives %d on a fresh VM and %d as evaluation %d on a VM used before under other modes\n  modes so far=%q", expr, mode, want, r.val, k+1, sc.Switches[:k+1])
				}
			default:
				check(fmt.Sprintf("evaluation %d on a used VM after modes %q", k+1, sc.Switches[:k]), r)
			}
		}
	}
	res.State(HashStr(famKey + fmt.Sprint(len(sc.Terms)) + sc.Wrap))
	if sc.Wrap != "" {
		res.Probe("evaluated_in_sub_vm_" + sc.Wrap)
	}
}

func c15Shrink(raw json.RawMessage) []json.RawMessage {
	var sc C15Scenario
	if json.Unmarshal(raw, &sc) != nil {
		return nil
	}
	var out []json.RawMessage
	emit := func(f func(s *C15Scenario)) {
		var c C15Scenario
		json.Unmarshal(raw, &c)
		f(&c)
		out = append(out, MustJSON(&c))
	}
	if len(sc.Terms) > 1 {
		for i := range sc.Terms {
			i := i
			emit(func(s *C15Scenario) {
				s.Terms = []DiceSpec{s.Terms[i]}
				s.Coefs = []int64{s.Coefs[i]}
			})
		}
	}
	if sc.Const != 0 {
		emit(func(s *C15Scenario) { s.Const = 0 })
	}
	if len(sc.Switches) > 0 {
		emit(func(s *C15Scenario) { s.Switches = nil })
		for i := range sc.Switches {
			i := i
			emit(func(s *C15Scenario) { s.Switches = append(append([]string{}, s.Switches[:i]...), s.Switches[i+1:]...) })
		}
	}
	for i := range sc.Coefs {
		i := i
		if sc.Coefs[i] != 1 {
			emit(func(s *C15Scenario) { s.Coefs[i] = 1 })
		}
	}
	for i, t := range sc.Terms {
		i := i
		if t.Times > 1 {
			emit(func(s *C15Scenario) { s.Terms[i].Times-- })
		}
		if t.N > 1 {
			emit(func(s *C15Scenario) { s.Terms[i].N-- })
		}
		if t.HasMin {
			emit(func(s *C15Scenario) { s.Terms[i].HasMin = false })
		}
		if t.HasMax {
			emit(func(s *C15Scenario) { s.Terms[i].HasMax = false })
		}
		if t.Keep != 0 {
			emit(func(s *C15Scenario) { s.Terms[i].Keep = 0 })
		}
	}
	if len(sc.Seeds) > 1 {
		for i := range sc.Seeds {
			i := i
			emit(func(s *C15Scenario) { s.Seeds = []uint64{s.Seeds[i]} })
		}
	}
	return out
}

func init() {
	Register(&Check{
		ID: "C15", Level: "exploration",
		QuickRuns: 12000, ThoroughRuns: 600000,
		Gen: c15Gen, Exec: c15Exec, Shrink: c15Shrink,
		Rule: "terms are plain XdY with modifiers, CoC bonus / penalty, Fate, and the pools that cannot explode (WoD with add line 0, with k / q thresholds in any order; Double Cross with a critical value above the sides). in half of the cases the expression is also evaluated 2-5 times on ONE long-lived VM whose roll mode is switched in between (random / min / max in a seeded order): min and max results must equal the fresh-VM bounds and draw nothing, random results must lie in the bracket. one case = an expression sum(c_i * T_i) + c0 with non-negative constants over 1-3 non-exploding dice terms (XdY with every keep/drop/min/max combination from a boundary-biased grid, Fate, CoC bonus/penalty), evaluated in min-mode and max-mode (ledger: zero dice consume a generator; generator bytes unchanged), under 6 real seeded streams, and under forced die vectors (all lowest, all highest, alternating, CoC tens dice at '0'): every result must lie within [min-mode, max-mode]; for plain XdY terms all-lowest / all-highest faces must reproduce the min-mode / max-mode result exactly. distinct = distinct expressions; non-trivial = both modes evaluated to an int",
		Real: []string{"VM dice instructions, Roll mode switch, RollCommon/RollCoC/RollFate"},
		Stub: []string{"die faces in forcing runs"},
		Assumptions: []string{"monotone expressions only: sums of dice terms times non-negative constants"},
	})
}
