package sim

import (
	"runtime"
	"encoding/json"
	"strings"

	ds "github.com/sealdice/dicescript"
)

// C01 — the public API is total: no panic, no fatal error, no hang, in any simulated history of
// commands, aborts, callback faults and observations on one long-lived VM.

type C01Scenario struct {
	GlobalSeed uint64
	Cfg        CfgSpec
	Host       HostSpec
	Cmds       []Cmd
	CancelAt   map[int]int64 `json:",omitempty"` // command index -> tick at which the simulator cancels the evaluation
	Restored   []string      `json:",omitempty"` // JSON documents decoded and bound as r0, r1, … before the first command
	// RegPatterns: custom dice patterns the embedding program registers before the first command (valid,
	// invalid, and valid-but-odd regular expressions): the registration call itself must not crash
	RegPatterns []string `json:",omitempty"`
}

func c01Gen(seed uint64, tier string) any {
	r := NewRng(seed)
	sc := &C01Scenario{GlobalSeed: r.U64(), Cfg: GenCfg(r)}
	// configuration swarm beyond GenCfg
	switch r.Intn(5) {
	case 0:
		sc.Cfg.OpLimit = int64(r.Range(1, 400))
	case 1, 2:
		sc.Cfg.OpLimit = 30000
	}
	switch r.Intn(5) {
	case 0:
		sc.Cfg.ParseLimit = uint64(r.Range(10, 5000))
	case 1:
		sc.Cfg.ParseLimit = 10000000
	}
	switch r.Intn(10) {
	case 0:
		sc.Cfg.DefaultSide = "'str'"
	case 1:
		sc.Cfg.DefaultSide = "d"
	case 2:
		sc.Cfg.DefaultSide = "[1,2"
	}
	if r.Chance(1, 4) {
		sc.Cfg.Seeded = false
	}
	o := SwarmOpts(r, sc.Cfg)
	o.IllTyped = Pick(r, []int{0, 30, 120, 300})
	o.BrokenTail = Pick(r, []int{0, 100, 400})
	o.Noise = Pick(r, []int{0, 0, 100, 500})
	o.RandMeth = r.Chance(1, 2)
	if r.Chance(1, 3) {
		sc.Host = HostSpec{Custom: true, CustomTok: "XX", HandlerPlan: randPlan(r, 12), Globals: r.Bool(), StLog: true,
			NeverStream: r.Intn(3), IdentityLoadPre: r.Bool(), IdentityLoadPost: r.Bool(), IdentityStore: r.Bool(), IdentityDetail: r.Bool()}
		o.CustomTok = "XX"
	}
	g := NewProgGen(r.Fork(), o)
	n := r.Range(3, 9)
	for i := 0; i < n; i++ {
		src := ""
		switch r.Intn(14) {
		case 0:
			src = adversarial(r)
			if sc.Cfg.OpLimit > 0 && r.Bool() {
				src = resourceAdversarial(r)
			}
		case 1:
			src = "^st" + Pick(r, []string{" 力量60敏捷70", "力量:50 hp+1d4", " &手枪=1d6+2", "力量*1.5: 3", " 'a b'=3 x-=2", " 力量+1d(", "力量60" + g.Int()})
		default:
			src = g.Program(r.Range(0, 4))
		}
		switch r.Intn(10) {
		case 0:
			sc.Cmds = append(sc.Cmds, Cmd{Kind: "parse", Src: src}, Cmd{Kind: "rerun"}, Cmd{Kind: "rerun"})
		case 1:
			sc.Cmds = append(sc.Cmds, Cmd{Kind: "runexpr", Src: src, Local: r.Bool()})
		case 2:
			sc.Cmds = append(sc.Cmds, Cmd{Kind: "rerun"})
		default:
			sc.Cmds = append(sc.Cmds, Cmd{Kind: "run", Src: src})
		}
	}
	if r.Chance(1, 4) {
		sc.CancelAt = map[int]int64{r.Intn(len(sc.Cmds)): int64(r.Range(1, 60))}
	}
	if r.Chance(1, 8) {
		for i := r.Range(1, 2); i > 0; i-- {
			sc.RegPatterns = append(sc.RegPatterns, Pick(r, oddPatterns))
		}
	}
	return sc
}

// oddPatterns: what a host might hand to RegCustomDice. Patterns that match the empty string or everything
// (``, `.*`, `x*`) are left out: with those the host itself makes every operand position a custom dice
// attempt over the rest of the input, and a 100 KB source takes a minute - the host's doing, not an input's.
var oddPatterns = []string{`Z\Q(+)`, `Q\Q`, `(`, `)`, `[`, `\`, `a{1001}`, `(?i)kk(\d+)`, `(a|b)*c`, `E(\d+)|F(\d+)`, `^G(\d+)`, `H(\d+)$`, `(?P<n>J\d+)`, `\pL+\d`,
	strings.Repeat("(", 999) + "K" + strings.Repeat(")", 999), strings.Repeat("(", 1000) + "K" + strings.Repeat(")", 1000), `\x{110000}`, `[z-a]`, `M(?=1)`, "N\\"}

func randPlan(r *Rng, n int) string {
	b := make([]byte, n)
	for i := range b {
		b[i] = "vvvvvvenr"[r.Intn(9)]
	}
	return string(b)
}

// randPlanFaulty also lets the callback crash or roll dice of its own.
func randPlanFaulty(r *Rng, n int) string {
	b := make([]byte, n)
	for i := range b {
		b[i] = "vvvvvenrppdd"[r.Intn(12)]
	}
	return string(b)
}

// adversarial returns programs aimed at the resource clause and at known fragile shapes.
// resourceAdversarial returns programs aimed at the resource clause (only meaningful, and only
// generated, when an operation budget is configured).
// deepSources: very long or deeply nested sources in compact spelling (see ExpandSrc); each costs a
// noticeable fraction of a second to parse, so they are drawn rarely.
var deepSources = []string{"@@deep:br:60000", "@@deep:pa:250000", "@@deep:dict:60000", "@@deep:call:60000", "@@deep:tpl:30000", "@@deep:idx:6000", "@@deep:neg:300000", "@@deep:attr:9000", "@@deep:br:3000", "@@deep:pa:20000"}

func resourceAdversarial(r *Rng) string {
	if r.Chance(1, 12) {
		return Pick(r, deepSources)
	}
	return Pick(r, []string{
		"a=[1]; b=[1]; i=0; while i<45 { a=[a,a]; b=[b,b]; i=i+1 }; a == b", "a={'k':1}; b={'k':1}; i=0; while i<45 { a={'x':a,'y':a}; b={'x':b,'y':b}; i=i+1 }; a == b", "a=[1]; b=[2]; i=0; while i<45 { a=[a,a]; b=[b,b]; i=i+1 }; a != b",
		"a=[1]; b=[1]; i=0; while i<45 { a=[a,a,a]; b=[b,b,b]; i=i+1 }; [a] == [b]",
		"[1].kh(9223372036854775807)", "[3,1,2].kl(9223372036854775807) + [1].kh(3000000000)", "xs=[1,2,3]; xs.kh(4611686018427387904)", "[1,2].randSize(9223372036854775807)",
		"s='x'; i=0; while i<40 { s = s + s; i=i+1 }; 1",
		"s='x'; i=0; while i<60 { s = `{s}{s}`; i=i+1 }; 1",
		"xs=[1,2]; i=0; while i<20 { xs = xs + xs; i=i+1 }",
		"lst=[3..0]; i=0; while i<40 { lst[1:2] = lst; i=i+1 }; lst.len()", "lst=[3..0]; func grow() { lst[1:2] = lst; n = grow(); return n }; grow()", "xs=[1..400]; i=0; while i<2000 { xs.push(i); i=i+1 }; xs.len()",
		"xs=[[1]]; i=0; while i<40 { xs = [xs, xs]; i=i+1 }; xs",
		"o={'k':1}; i=0; while i<40 { o = {'a':o,'b':o}; i=i+1 }; o",
		"func rr(n) { return rr(n+1) }; rr(0)",
		"func rr(n) { if n > 0 { return rr(n-1) + 1 }; return 0 }; rr(200)",
		"func rr(n) { return rr(n+1) + rr(n+2) }; rr(0)",
		"&cv = cv + 1; cv",
		"&cv = gg; &gg = cv; cv",
		"while 1 { }",
		"i=0; while 1 { i = i + 1 }",
		"99999d99999", "9999999999d6", "1a2m100000000", "100a2", "20000c2m10", "20000a2m2", "10c2m100000000",
		"xs=[1..512]; ys = xs*1; func big() { return xs+xs }; big()",
	})
}

func adversarial(r *Rng) string {
	return Pick(r, []string{
		strings.Repeat("(", 60) + "1" + strings.Repeat(")", 60),
		strings.Repeat("[", 40) + "1" + strings.Repeat("]", 40),
		strings.Repeat("if 1 { ", 25) + "1" + strings.Repeat(" }", 25),
		strings.Repeat("`{", 25) + "1" + strings.Repeat("}`", 25),
		"1" + strings.Repeat("+1", 600),
		"9999d9999",
		"i=0; while i<30 { if 1 { i=i+1; continue } }; i",
		"i=0; while 1 { i=i+1; if i>25 { break } }; i",
		"[].rand()", "[].pop()", "[1,2].randSize(5)", "[1,2].randSize(-1)", "[x,2]\n[x,2]",
		"(1.5)d6", "2d(1.5)", "('a')a10", "b1.5", "p'x'", "(-2)d6", "3d6k(-1)", "3d6q0", "1a1", "10c1", "b(-1)", "p(99999)",
		"f+f+f", "3a11", "3c11",
		"x = {}; x.y.z", "null.x", "1.x", "'s'.len()", "[1,2][5]", "'abc'[10]", "''[0]", "'abc'[-9]", "[1,2,3][2:1]",
		"a=[1]; a.push(a); a", "o={'k':1}; o.self=o; o", "a=[1]; a.push(a); a.push(a); a", "m={'k':1}; m.x=m; m.y=m; m", "m={'k':1}; a=[m,m]; m.x=a; m.y=a; a",
		"a=[1]; a.push(a); b2=[1]; b2.push(b2); a == b2", "a=[1]; a.push(a); a == a", "m={'k':1}; m.x=m; n2={'k':1}; n2.x=n2; m == n2", "a=[1]; a.push(a); `{a}`", "a=[1]; a.push(a); repr(a)", "a=[1]; a.push(a); [a,a] == [a,a]",
		"&ca = 1; &ca.me = &ca; &cb = 1; &cb.me = &cb; &ca == &cb", "&ca = 1; &ca.me = &ca; &cb = 1; &cb.me = &cb; [&ca] == [&cb]", "&ca = d6; &cb = d6; &ca.x = [&ca]; &cb.x = [&cb]; {'v': &ca} == {'v': &cb}", "&ca = 1; &ca.me = &ca; &ca == &ca", "&ca = 1; &cb = 1; &ca.o = &cb; &cb.o = &ca; &ca != &cb",
		"&cc = 1; &cc.me = cc; cc", "a=[1]; a.push(a); a.sum()", "a=[1]; a.push(a); a + a", "a=[1]; a.push(a); a * 3", "[1,2,3].kh('x')", "[1,2,3].kl(1.5)",
		"dct = {}; dct.k = dct['j'] = []", "d || [1,2]", "this.x = 5; this.x", "5\n{'a':1",
		"load('x')", "load(1)", "store('y', 2); y", "store(1,2)", "dir(1)", "dir([])", "abs('x')", "toInt('zz')", "toInt([])", "floor('x')",
		"1/0", "1%0", "1.0/0", "2^9999", "0^(-1)", "(-8)^0.5", "1 ? ", "? 1", "`{%", "`{% %}`", "`{}`", "'\\", "\"\\x",
		"[1..100000]", "[1..0]*600", "[0]*513", "[[0]*512]*512",
		"func f1(a,b) { a+b }; f1(1)", "func f1() {}; f1(1,2,3)", "ff(", "abs(1,2)", "abs()",
		"&x.y = 1", "&nope.y", "x.y = 1", "return", "break", "continue", "while", "if", "func", "else",
		"^st", "^st 力量", "^st &=1", "^st 力量*:", "^st''=1",
		"// #EnableDice coc true\nb1 + p1", "// #EnableDice wod true\n3a8", "// #EnableDice", "//",
		"1 2 3", "d", "dd", "ddd", "d优势", "3d优势", "d0", "0d6", "1d0", "d(0)", "2d-1",
		// prototype chains: looping, deep, through non-dicts
		"o = {'k':1}; o.__proto__ = o; o.zz", "pa = {}; pb = {'__proto__': pa}; pa.__proto__ = pb; pa.q + 1", "o = {'__proto__': 5}; o.x", "o = {'__proto__': [1]}; o.len()", "p0 = {'v': 1}; p1 = {'__proto__': p0}; p2 = {'__proto__': p1}; p2.v + p2.w",
		"o = {}; o.__proto__ = o; o.keys()", "o = {}; o.__proto__ = o; `{o.nope}`", "o = {}; o.__proto__ = o; o.zz = 1; o.zz + o.yy",
		"\x1e{1}\x1e", "`{1}{2}{%3%}`", "\x00", "\xff\xfe", "１＋２", "1＋2－3＊4／5",
	})
}

func c01Exec(raw json.RawMessage, res *RunResult) {
	var sc C01Scenario
	if err := json.Unmarshal(raw, &sc); err != nil {
		res.Violate("harness-scenario", "bad scenario: %v", err)
		return
	}
	dg := &Digest{}
	ResetGlobals(sc.GlobalSeed)
	ds.VerifSortedRange = false // Range is sorted by the library itself since the C06 fix; the real loop runs
	m := &Meter{}
	m.Install()
	defer Uninstall()
	h := NewHost(sc.Host, m)
	vm := sc.Cfg.NewVM()
	h.Install(vm)
	for _, pat := range sc.RegPatterns {
		pat := pat
		p, _, _, sig, msg := Guard(func() {
			_ = vm.RegCustomDice(pat, func(ctx *ds.Context, groups []string, payload any) (*ds.VMValue, string, error) {
				return ds.NewIntVal(1), "", nil
			})
		})
		res.Fault("register_odd_pattern")
		if p {
			res.Violate(sig, "RegCustomDice(%q) panicked: %s", trunc(pat, 80), msg)
		}
	}
	for i, doc := range sc.Restored {
		p, _, _, sig, msg := Guard(func() {
			if v, err := ds.VMValueFromJSON([]byte(doc)); err == nil && v != nil {
				vm.Attrs.Store("r"+string(rune('0'+i)), v)
			}
		})
		if p {
			res.Violate(sig, "decoding restored document %q panicked: %s", trunc(doc, 200), msg)
		}
	}
	nontrivial := false
	var key []string
	parsedOK := false
	for i, c := range sc.Cmds {
		if c.Kind == "rerun" && !parsedOK {
			// the API is total: a re-run after a Parse that failed must end in an error, not in a crash
			res.Fault("rerun_after_failed_parse")
		}
		m.Reset()
		// A hang is made a deterministic event: the simulated clock cancels the evaluation.
		m.Budget = 60_000
		if sc.Cfg.OpLimit > 0 {
			// with a budget configured the library must bound itself; the simulator only steps in far
			// beyond any work the budget could justify (bounded work proper is C07's clause)
			m.Budget = 64*sc.Cfg.OpLimit + 100_000
		}
		m.HugeLimit = 8 << 20
		m.DepthCap = 0
		if sc.Cfg.OpLimit == 0 {
			m.DepthCap = 40 // without a budget, unbounded recursion is the script's business: cancel it
		}
		if at, ok := sc.CancelAt[i]; ok {
			m.Budget = at
		}
		var ms0, ms1 runtime.MemStats
		deep := strings.HasPrefix(c.Src, "@@deep:")
		if deep {
			runtime.ReadMemStats(&ms0)
		}
		o := DoCmd(vm, c)
		if deep {
			runtime.ReadMemStats(&ms1)
			res.Fault("deep_or_long_source")
			srcLen := len(ExpandSrc(c.Src))
			if alloc := ms1.TotalAlloc - ms0.TotalAlloc; sc.Cfg.OpLimit > 0 && srcLen < 64<<10 && alloc > 256<<20 {
				// memory is a resource too: a source of a few KiB must not cost hundreds of MiB to parse
				res.Violate("resource:parser-allocates-over-256MiB-for-source-under-64KiB", "command %d: parsing a source of %d bytes allocated %d MiB (operation budget configured: %d)\n  src=%q", i, srcLen, alloc>>20, sc.Cfg.OpLimit, c.Src)
			}
		}
		res.Evals++
		res.Ticks += m.Ticks
		if m.Cancelled {
			if _, ok := sc.CancelAt[i]; ok {
				res.Fault("cancel")
			} else {
				res.Probe("tick_budget_cancel")
				if sc.Cfg.OpLimit > 0 {
					// bounded work under a budget is C07's clause; here it is only counted
					res.Probe("tick_budget_cancel_with_oplimit")
				}
			}
		}
		switch c.Kind {
		case "run", "parse":
			parsedOK = o.Parsed && o.Panic == ""
		}
		if o.Panic != "" {
			res.Violate(o.Panic, "command %d (%s) panicked in %s\n  src=%q\n  cfg=%+v", i, c.Kind, o.PanicAt, trunc(c.Src, 300), sc.Cfg)
		}
		if o.Err != "" {
			res.Probe("cmd_error")
			if strings.Contains(o.Err, "算力") {
				res.Fault("budget_abort")
			}
		} else if c.Kind == "run" || c.Kind == "rerun" {
			res.Probe("cmd_ok")
			if m.Steps > 3 {
				nontrivial = true
			}
		}
		// API contract: nil error <=> Error nil and a result present
		if o.Panic == "" && !m.Cancelled && (c.Kind == "run" || c.Kind == "rerun") {
			if o.Err == "" && (vm.Error != nil || vm.Ret == nil) {
				res.Violate("contract:nil-error-without-result", "command %d returned nil but Error=%v Ret=%v\n  src=%q", i, vm.Error, vm.Ret, trunc(c.Src, 300))
			}
			if o.Err != "" && vm.Error == nil {
				res.Violate("contract:error-not-recorded", "command %d returned %q but ctx.Error is nil\n  src=%q", i, trunc(o.Err, 100), trunc(c.Src, 300))
			}
		}
		seen, psig := ObservationBurst(vm)
		res.Fault("observe")
		if psig != "" {
			sig := psig[:strings.Index(psig, " in ")]
			res.Violate(sig, "observation after command %d panicked: %s\n  src=%q", i, psig, trunc(c.Src, 300))
		}
		dg.Add("cmd", c.Kind, c.Src, o.Key(), seen)
		key = append(key, c.Src)
		if vm.IsRunning {
			res.Violate("contract:stuck-running", "IsRunning still true after command %d returned\n  src=%q", i, trunc(c.Src, 300))
			vm.IsRunning = false
		}
	}
	for k, v := range h.Fired {
		res.FaultN(k, v)
	}
	if m.MaxDepth > 0 {
		res.Probe("sub_vm_reached")
	}
	res.Digest = dg.Hex()
	res.Nontrivial = nontrivial
	res.CaseKey = HashStr(strings.Join(key, "\x00"))
	res.State(res.CaseKey ^ HashStr(res.Digest))
}

func c01Shrink(raw json.RawMessage) []json.RawMessage {
	var sc C01Scenario
	if json.Unmarshal(raw, &sc) != nil {
		return nil
	}
	var out []json.RawMessage
	emit := func(f func(s *C01Scenario)) {
		var c C01Scenario
		json.Unmarshal(raw, &c)
		f(&c)
		out = append(out, MustJSON(&c))
	}
	// drop commands (halves first, then singles)
	n := len(sc.Cmds)
	if n > 1 {
		emit(func(s *C01Scenario) { s.Cmds = s.Cmds[n/2:]; s.CancelAt = nil })
		emit(func(s *C01Scenario) { s.Cmds = s.Cmds[:n/2]; s.CancelAt = nil })
		for i := 0; i < n; i++ {
			i := i
			emit(func(s *C01Scenario) {
				s.Cmds = append(append([]Cmd{}, s.Cmds[:i]...), s.Cmds[i+1:]...)
				s.CancelAt = nil
			})
		}
	}
	if sc.CancelAt != nil {
		emit(func(s *C01Scenario) { s.CancelAt = nil })
	}
	if (sc.Host != HostSpec{}) {
		emit(func(s *C01Scenario) { s.Host = HostSpec{} })
	}
	if len(sc.Restored) > 0 {
		emit(func(s *C01Scenario) { s.Restored = nil })
	}
	// simplify configuration
	def := CfgSpec{WoD: true, CoC: true, Fate: true, DC: true, Seeded: true, SeedA: 1, SeedB: 2}
	if sc.Cfg != def {
		emit(func(s *C01Scenario) { s.Cfg = def })
		emit(func(s *C01Scenario) { s.Cfg.OpLimit = 0; s.Cfg.ParseLimit = 0 })
		emit(func(s *C01Scenario) { s.Cfg.DefaultSide = "" })
		emit(func(s *C01Scenario) { s.Cfg.Min, s.Cfg.Max = false, false })
		emit(func(s *C01Scenario) { s.Cfg.NoBitwise, s.Cfg.NoStmts, s.Cfg.NoND, s.Cfg.IgnoreDiv0 = false, false, false, false })
	}
	// shrink program texts
	for i, c := range sc.Cmds {
		i := i
		if c.Kind == "parse" || c.Kind == "runexpr" {
			emit(func(s *C01Scenario) { s.Cmds[i].Kind = "run" })
		}
		for _, t := range shrinkText(c.Src) {
			t := t
			emit(func(s *C01Scenario) { s.Cmds[i].Src = t })
		}
	}
	return out
}

func init() {
	Register(&Check{
		ID: "C01", Level: "exploration",
		QuickRuns: 40000, ThoroughRuns: 1200000,
		Gen: c01Gen, Exec: c01Exec, Shrink: c01Shrink,
		Rule: "one case = one simulated history on a single long-lived VM: 3-9 commands (Run, Parse+RunAfterParsed x2, RunExpr, stale RunAfterParsed) over generated, ill-typed, broken-tail, byte-noise and adversarial programs, under a swarm configuration (dice flags, DisableStmts/NDice/Bitwise, IgnoreDiv0, min/max, DefaultDiceSideExpr, op/parse budgets, seeded/unseeded), with host-callback faults (handler error/nil/re-entrant RunExpr), simulator cancellation at a chosen tick, and an observation burst after every command. distinct = distinct command-text sequences; non-trivial = at least one evaluation dispatched more than 3 instructions successfully",
		Real: []string{"dicescript parser, compiler, VM, values, ValueMap, serialisation, roll functions (whole package, build tag verif)"},
		Stub: []string{"host callbacks (custom dice handler, load/store hooks, global scope, st callback)", "global generators reseeded by the simulator", "wall clock not read (PrintBytecode off)"},
		Assumptions: []string{"inputs are those the workload generator, its mutators and the adversarial list produce, not all byte strings", "a panic is attributed to its innermost dicescript frame; two panics at the same frame with the same message class are one finding"},
	})
}
