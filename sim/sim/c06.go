package sim

import (
	"bytes"
	"encoding/json"
	"fmt"
	"strings"

	ds "github.com/sealdice/dicescript"
	"golang.org/x/exp/rand"
)

// C06 — seeded evaluation is reproducible and resumable; all randomness a script can reach comes
// from the context's generator.
//
// Worlds: the same session on a context seeded with the same bytes runs in a quiet world and in
// noisy worlds that differ in everything that must not matter (other seeded and unseeded VMs
// evaluating between its commands, direct draws on both package-level generators, both reseeded —
// a clock jump —, observation bursts). The dice ledger records which source every die used.

type Noise struct {
	K   string `json:"k"`           // vm | uvm | draw | xdraw | reseed | observe
	Src string `json:"s,omitempty"` // program for vm/uvm
	N   uint64 `json:"n,omitempty"`
}

type C06Scenario struct {
	GlobalSeed uint64
	Cfg        CfgSpec
	Cmds       []Cmd
	Noise      [][]Noise // Noise[i] happens before command i (and Noise[len] after the last)
	Host       HostSpec  // the embedding program's custom dice syntax (callbacks that fail, crash or roll)
	Worlds     int
}

func c06Gen(seed uint64, tier string) any {
	r := NewRng(seed)
	cfg := GenCfg(r).Tame()
	cfg.Seeded = true
	cfg.OpLimit = 30000
	o := SwarmOpts(r, cfg)
	o.Dice = true
	o.RandMeth = r.Chance(2, 3)
	o.Containers = true
	o.Methods = true
	o.BigNums = false
	g := NewProgGen(r.Fork(), o)
	sc := &C06Scenario{GlobalSeed: r.U64(), Cfg: cfg, Worlds: 2}
	n := r.Range(2, 6)
	if r.Chance(1, 3) {
		sc.Host = HostSpec{Custom: true, CustomTok: "XX", HandlerPlan: randPlanFaulty(r, 12)}
	}
	for i := 0; i < n; i++ {
		var src string
		if sc.Host.Custom && r.Chance(1, 2) {
			src = Pick(r, []string{"XX3 + d100", "d20 + XX1 * 2", "XX2; 3d6", "[XX1, d10, XX2]", "XX4 + XX5 + 2d10", "&cx = XX2 + d6; cx + cx"})
			sc.Cmds = append(sc.Cmds, Cmd{Kind: "run", Src: src})
			continue
		}
		switch r.Intn(6) {
		case 0:
			src = Pick(r, []string{
				"xs = [1,2,3,4,5,6]; xs.shuffle(); xs", "[1,2,3,4,5,6,7,8].rand()", "[1,2,3,4,5].randSize(3)", "&cv = 3d6 + d20; cv + cv", "func ff(p) { return p + 2d10 }; ff(d4) + ff(1)",
				"func g2() { return 4d1000 }; func f2() { return g2() + d6 }; f2()", "func g3() { return d100 }; &c3 = g3() + g3(); c3", "func h2(p) { return [1,2,3,4,5,6].rand() + p }; func f3() { return h2(d4) }; f3()",
				"func g4() { return [1,2,3,4,5].shuffle() }; func f4() { return g4() }; f4()", "&c4 = 2d10; &c5 = c4 + d10; func f5() { return c5 }; f5()", "func g5() { d }; func f6() { g5() + 1 }; f6()",
				"[1..64].randSize(4)", "[1..100].randSize(7)", "big = [1..40]; big.randSize(3) + big.randSize(2)", "[1..200].shuffle()[0:3]", "[1..64].rand() + [1..33].rand()", "func pick3() { return [1..48].randSize(3) }; pick3() + pick3()",
				"`{d100} {3d6k2} {d20优势}`", "i=0; s=0; while i<5 { s = s + d6; i=i+1 }; s", "[d6,d6,d6].kh(2)", "(2d4)d(d6+1)", "d6 ? d8 : d10", "[1,2,3].shuffle().rand()",
			})
		case 1:
			src = g.DiceTerm() + " + " + g.DiceTerm() + " * " + g.DiceTerm()
		case 2:
			if r.Bool() {
				sc.Cmds = append(sc.Cmds, Cmd{Kind: "runexpr", Src: g.DiceTerm() + " + 1", Local: r.Bool()})
				continue
			}
			src = g.Program(r.Range(1, 3))
		default:
			src = g.Program(r.Range(1, 3))
		}
		sc.Cmds = append(sc.Cmds, Cmd{Kind: "run", Src: src})
	}
	ng := NewProgGen(r.Fork(), o)
	for i := 0; i <= len(sc.Cmds); i++ {
		var ns []Noise
		k := r.Intn(4)
		for j := 0; j < k; j++ {
			switch r.Intn(7) {
			case 0, 1:
				ns = append(ns, Noise{K: "vm", Src: ng.DiceTerm() + " + " + ng.DiceTerm(), N: r.U64()})
			case 2:
				ns = append(ns, Noise{K: "uvm", Src: Pick(r, []string{"3d6", "d100 + 2d10", "[1,2,3].shuffle()", "5d20k2", "[1,2,3,4].rand()"})})
			case 3:
				ns = append(ns, Noise{K: "draw", N: uint64(r.Range(1, 5))})
			case 4:
				ns = append(ns, Noise{K: "xdraw", N: uint64(r.Range(1, 5))})
			case 5:
				ns = append(ns, Noise{K: "reseed", N: r.U64()})
			default:
				ns = append(ns, Noise{K: "observe"})
			}
		}
		sc.Noise = append(sc.Noise, ns)
	}
	return sc
}

type c06World struct {
	out     []*Outcome
	seeds   [][]byte
	attrs   []*ds.ValueMap // deep copies after each command (for resume)
	fired   map[string]int
	hcalls  []int          // callback invocations so far, after each command
	foreign int            // dice drawn for the seeded context from a source that is not its own
	globalTouched []int    // commands that advanced a package-level generator
	dice    int
}

func c06Run(sc *C06Scenario, noisy bool, worldSalt uint64, m *Meter, res *RunResult, wantCopies bool) *c06World {
	w := &c06World{fired: map[string]int{}}
	ResetGlobals(sc.GlobalSeed ^ worldSalt)
	vm := sc.Cfg.NewVM()
	var host *Host
	if sc.Host.Custom {
		host = NewHost(sc.Host, m)
		host.Install(vm)
	}
	doNoise := func(ns []Noise) {
		if !noisy {
			return
		}
		for _, n := range ns {
			switch n.K {
			case "vm":
				c := sc.Cfg
				c.SeedA, c.SeedB = n.N, n.N^0x55
				o := c.NewVM()
				if sc.Host.Custom {
					NewHost(sc.Host, m).Install(o)
				}
				m.Reset()
				DoCmd(o, Cmd{Kind: "run", Src: n.Src})
			case "uvm":
				c := sc.Cfg
				c.Seeded = false
				o := c.NewVM()
				m.Reset()
				DoCmd(o, Cmd{Kind: "run", Src: n.Src})
			case "draw":
				for i := uint64(0); i < n.N; i++ {
					ds.Roll(nil, 20, 0)
				}
			case "xdraw":
				for i := uint64(0); i < n.N; i++ {
					rand.Uint64()
				}
			case "reseed":
				ds.VerifSetGlobalSeed(n.N)
				rand.Seed(n.N ^ 77)
				res.Fault("clock_jump")
			case "observe":
				ObservationBurst(vm)
				res.Fault("observe")
			}
			res.Fault("interfere")
		}
	}
	for i, c := range sc.Cmds {
		if i < len(sc.Noise) {
			doNoise(sc.Noise[i])
		}
		// has this command consumed a package-level generator? reseed, remember the next word, reseed
		probe := sc.GlobalSeed ^ uint64(i+1)*0x9E37
		rand.Seed(probe)
		xWant := rand.Uint64()
		rand.Seed(probe)
		gBefore := ds.VerifGlobalState()
		m.Reset()
		m.KeepLedger = true
		o := DoCmd(vm, c)
		res.Evals++
		res.Ticks += m.Ticks
		for _, d := range m.Ledger {
			if d.Mode == 0 && d.Sides > 0 {
				w.dice++
				if d.Src != vm.RandSrc {
					w.foreign++
				}
			}
		}
		if rand.Uint64() != xWant || !bytes.Equal(gBefore, ds.VerifGlobalState()) {
			w.globalTouched = append(w.globalTouched, i)
		}
		w.out = append(w.out, o)
		sd, _ := vm.GetCurSeed()
		w.seeds = append(w.seeds, sd)
		if host != nil {
			w.hcalls = append(w.hcalls, host.handlerN)
			for k, v := range host.Fired {
				res.FaultN(k, v-w.fired[k])
				w.fired[k] = v
			}
		}
		if wantCopies {
			w.attrs = append(w.attrs, ds.VerifDeepCopyMap(vm.Attrs))
		}
	}
	if len(sc.Noise) > len(sc.Cmds) {
		doNoise(sc.Noise[len(sc.Cmds)])
	}
	return w
}

func c06Exec(raw json.RawMessage, res *RunResult) {
	var sc C06Scenario
	if err := json.Unmarshal(raw, &sc); err != nil {
		res.Violate("harness-scenario", "bad scenario: %v", err)
		return
	}
	dg := &Digest{}
	ds.VerifSortedRange = false // Range is sorted by the library itself since the C06 fix; the real loop runs
	m := &Meter{Budget: 400_000, HugeLimit: 4 << 20, KeepLedger: true}
	m.Install()
	defer Uninstall()

	quiet := c06Run(&sc, false, 0, m, res, true)
	for i, o := range quiet.out {
		dg.Add("quiet", sc.Cmds[i].Src, o.Key())
	}
	// source identity
	if quiet.foreign > 0 {
		res.Violate("foreign-source", "%d of %d dice rolled for the seeded context did not come from its own generator\n  cmds=%s", quiet.foreign, quiet.dice, fmtCmds(sc.Cmds))
	}
	for _, i := range quiet.globalTouched {
		res.Violate("global-generator-consumed", "command %d on a seeded context advanced a package-level generator\n  src=%q", i, sc.Cmds[i].Src)
		break
	}
	res.ProbeN("dice_in_ledger", quiet.dice)

	// noisy worlds
	for wn := 1; wn <= sc.Worlds; wn++ {
		noisy := c06Run(&sc, true, uint64(wn)*0x1234567, m, res, false)
		for i := range sc.Cmds {
			if f := DiffOutcome(quiet.out[i], noisy.out[i]); f != "" {
				res.Violate("world-mismatch:"+f, "command %d of a seeded session differs in %s between a quiet world and a world with unrelated activity (other VMs, draws on and reseeding of the package-level generators)\n  src=%q\n  quiet: %s\n  noisy: %s\n  noise=%s", i, f, sc.Cmds[i].Src, quiet.out[i].Short(), noisy.out[i].Short(), trunc(string(MustJSON(sc.Noise)), 400))
				break
			}
		}
	}

	// resume at every command boundary
	for p := 0; p+1 < len(sc.Cmds); p++ {
		if quiet.out[p].Panic != "" {
			break
		}
		ResetGlobals(sc.GlobalSeed ^ 0xABCDEF ^ uint64(p))
		var b *ds.Context
		if p%2 == 1 {
			// the captured state is installed in a context that has been used before: re-seeded and
			// re-initialised through Seed + Init(), the way a host recycles a context
			b = sc.Cfg.NewVM()
			m.Reset()
			DoCmd(b, Cmd{Kind: "run", Src: "[1,2,3,4].shuffle(); [5,6,7].rand() + d6 + 2d10k1"})
			b.Seed = append([]byte(nil), quiet.seeds[p]...)
			b.Init()
			res.Fault("reseed_used_context")
		} else {
			b = sc.Cfg.NewVMFromSeed(quiet.seeds[p])
		}
		b.Attrs = ds.VerifDeepCopyMap(quiet.attrs[p])
		if sc.Host.Custom {
			hb := NewHost(sc.Host, m)
			hb.handlerN = quiet.hcalls[p] // the embedding program resumes its own behaviour where it was
			hb.Install(b)
		}
		res.Fault("resume_from_captured_generator")
		for i := p + 1; i < len(sc.Cmds); i++ {
			m.Reset()
			o := DoCmd(b, sc.Cmds[i])
			res.Evals++
			if f := DiffOutcome(quiet.out[i], o); f != "" {
				res.Violate("resume-mismatch:"+f, "a fresh context built from GetCurSeed() after command %d (same variables) does not continue the sequence: command %d differs in %s\n  src=%q\n  uninterrupted: %s\n  resumed:       %s", p, i, f, sc.Cmds[i].Src, quiet.out[i].Short(), o.Short())
				break
			}
		}
	}
	res.Digest = dg.Hex()
	res.Nontrivial = quiet.dice >= 2
	var key []string
	for _, c := range sc.Cmds {
		key = append(key, c.Src)
	}
	res.CaseKey = HashStr(strings.Join(key, "\x00"))
	res.State(HashStr(fmt.Sprint(quiet.dice, len(sc.Cmds))) ^ res.CaseKey)
}

func fmtCmds(cs []Cmd) string {
	var parts []string
	for _, c := range cs {
		parts = append(parts, fmt.Sprintf("%s:%q", c.Kind, trunc(c.Src, 120)))
	}
	return strings.Join(parts, " | ")
}

func c06Shrink(raw json.RawMessage) []json.RawMessage {
	var sc C06Scenario
	if json.Unmarshal(raw, &sc) != nil {
		return nil
	}
	var out []json.RawMessage
	emit := func(f func(s *C06Scenario)) {
		var c C06Scenario
		json.Unmarshal(raw, &c)
		f(&c)
		out = append(out, MustJSON(&c))
	}
	for i := range sc.Cmds {
		i := i
		if len(sc.Cmds) > 1 {
			emit(func(s *C06Scenario) {
				s.Cmds = append(append([]Cmd{}, s.Cmds[:i]...), s.Cmds[i+1:]...)
				if i < len(s.Noise) {
					s.Noise = append(append([][]Noise{}, s.Noise[:i]...), s.Noise[i+1:]...)
				}
			})
		}
	}
	for i, ns := range sc.Noise {
		for j := range ns {
			i, j := i, j
			emit(func(s *C06Scenario) { s.Noise[i] = append(append([]Noise{}, s.Noise[i][:j]...), s.Noise[i][j+1:]...) })
		}
	}
	if sc.Worlds > 1 {
		emit(func(s *C06Scenario) { s.Worlds = 1 })
	}
	for i, c := range sc.Cmds {
		i := i
		cands := shrinkText(c.Src)
		if len(cands) > 16 {
			cands = cands[:16]
		}
		for _, t := range cands {
			t := t
			emit(func(s *C06Scenario) { s.Cmds[i].Src = t })
		}
	}
	return out
}

func init() {
	Register(&Check{
		ID: "C06", Level: "exploration", Isolation: 30,
		QuickRuns: 10000, ThoroughRuns: 300000,
		Gen: c06Gen, Exec: c06Exec, Shrink: c06Shrink,
		Rule: "one case = one session of 2-6 dice-using commands (in a third of the cases the session has an embedding program: a custom dice syntax whose callback returns a value, an error, nil, re-enters the VM, panics, or rolls on the context generator, per a seeded plan; every dice family, modifiers, sub-VM paths through functions / computed values / DefaultDiceSideExpr / RunExpr, random array methods) on a context seeded from given bytes, executed in a quiet world, in 2 noisy worlds (other seeded and unseeded VMs, direct draws on the package-level PCG source and on the x/exp/rand global, both reseeded = clock jump, observation bursts between commands) and resumed at EVERY command boundary from GetCurSeed() into a fresh context with deep-copied variables. Oracles: identical outcomes (value, detail text, generator bytes, ...) across worlds and after resume; ledger: every die of the seeded context was drawn from its own source; neither package-level generator advanced during its commands. distinct = distinct command lists; non-trivial = at least 2 dice in the ledger",
		Real: []string{"dicescript VM, roll functions, array methods, GetCurSeed/Init seeding"},
		Stub: []string{"package-level generators reseeded and probed by the simulator", "other VMs as interference"},
		Assumptions: []string{"dict rendering order is fixed by the sorted-Range seam (real Go map order is a separate reproducibility concern outside this check)"},
	})
}
