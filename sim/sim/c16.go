package sim

import (
	"encoding/json"
	"fmt"
	"reflect"
	"strings"

	ds "github.com/sealdice/dicescript"
)

// C16 (narrow) — disabled syntax stays disabled across a VM's history. Histories
// [input with an enabling/disabling macro or an st line] -> [macro-free probe using the family's
// spelling] under all family settings x DisableStmts/NDice/BitwiseOp: Context.Config is identical
// before and after every evaluation; the probe compiles (main listing and nested bodies) to no
// opcode of a family that is off and draws no die while such an opcode executes.
// NOT claimed: that no spelling re-opens a feature (only generated spellings are searched).

type C16Scenario struct {
	GlobalSeed uint64
	Cfg        CfgSpec
	Cmds       []Cmd // alternating: history commands (may contain macros) and probes (never contain macros)
	Probe      []bool
}

var famSpellings = map[string][]string{
	"coc":  {"b", "b2", "p1", "B3", "P", "b1+p1", "b 2", "(b2)", "[b1,p2]", "x=b2", "`{b2}`", "1+b", "p3*2", "b0", "p(2)", "b(1+1)"},
	"wod":  {"3a8", "10a11m10k8", "2a10q3", "1a2", "5a10k6m6", "(3a8)", "x=2a9", "3A8", "a8", "1+3a8", "3a(8)", "(3)a8", "3a8m(10)"},
	"dc":   {"2c5", "10c11m10", "1c2", "(2c5)", "x=3c7", "2C8", "1+2c5", "2c(5)", "(2)c5m6"},
	"fate": {"f", "f+1", "1+f", "F", "(f)", "[f,f]", "x=f", "`{f}`", "f*2", "f-f"},
	"stmt": {"if 1 {2}", "if 1 { 2 } else { 3 }", "while 0 {}", "x=0; while x<2 {x=x+1}; x", "func ff() {1}; ff()", "func gg(p) { return p }", "if 0 {} else if 1 {5}", "`{% if 1 {2} %}`", "`{% while 0 {} %}`", "return 5", "i=0; while 1 { break }"},
	"ndice": {"d", "2d", "d优势", "3d劣势", "d+1", "2dk1", "(2)d", "`{d}`"},
	"bit":  {"1|2", "3&1", "(1|2)&4", "x=5|2", "1 | 2", "7&x"},
}

func c16Gen(seed uint64, tier string) any {
	r := NewRng(seed)
	cfg := CfgSpec{Seeded: true, SeedA: r.U64(), SeedB: r.U64(), OpLimit: 20000}
	bits := r.Intn(16)
	cfg.CoC, cfg.WoD, cfg.Fate, cfg.DC = bits&1 != 0, bits&2 != 0, bits&4 != 0, bits&8 != 0
	cfg.NoStmts, cfg.NoND, cfg.NoBitwise = r.Chance(1, 3), r.Chance(1, 3), r.Chance(1, 3)
	cfg = cfg.Tame()
	sideFam := ""
	if r.Chance(1, 4) && !cfg.NoND {
		// the default-sides text spelled like a dice family: compiled on first use of a bare 'd',
		// possibly inside an input that carries a macro
		sideFam = Pick(r, []string{"coc", "fate", "wod", "dc"})
		cfg.DefaultSide = Pick(r, map[string][]string{"coc": {"b2", "p1 + 5", "b1 + 1"}, "fate": {"f + 10", "f"}, "wod": {"3a8 + 4", "2a9"}, "dc": {"2c5 + 3", "1c7"}}[sideFam])
	}
	sc := &C16Scenario{GlobalSeed: r.U64(), Cfg: cfg}
	fams := []string{"coc", "wod", "dc", "fate", "stmt", "ndice", "bit"}
	macroNames := map[string]string{"coc": "coc", "wod": "wod", "dc": "doublecross", "fate": "fate"}
	allOn := CfgSpec{WoD: true, CoC: true, Fate: true, DC: true}
	g := NewProgGen(r.Fork(), SwarmOpts(r, allOn))
	alpha := []string{"a", "b", "c", "f", "p", "d", "k", "q", "m", "1", "2", "9", "10", "(", ")", "+", " ", "x", "A", "B", "C", "F", "P"}
	n := r.Range(2, 5)
	for i := 0; i < n; i++ {
		fam := Pick(r, fams)
		// history command: a macro, an st line, or a failing input
		var h string
		switch r.Intn(6) {
		case 0, 1, 2:
			mf := fam
			if _, ok := macroNames[mf]; !ok {
				mf = Pick(r, []string{"coc", "wod", "dc", "fate"})
			}
			h = "// #EnableDice " + macroNames[mf] + " " + Pick(r, []string{"true", "true", "false"}) + "\n" + Pick(r, famSpellings[mf])
			if r.Chance(1, 3) {
				h += Pick(r, []string{" +", "; (", "\n// #EnableDice " + macroNames[mf] + " true"})
			}
		case 3:
			if r.Bool() {
				// several st values; a later value in parentheses is parsed with the parser's current flags
				h = "^st" + Pick(r, []string{"A:1 B:(", "力量60 敏捷:(", " &枪=1d6 B:(", "A:1 B:2 C:(", "力量:50 hp:("}) + Pick(r, famSpellings[fam]) + ")"
				break
			}
			h = "^st" + Pick(r, []string{" 力量60敏捷70", "力量:50 hp+1d4", " &手枪=1d6+2", " 力量+1d(", "力量60 敏捷" + Pick(r, famSpellings[fam]), " &枪=" + Pick(r, famSpellings[fam]), "力量=" + Pick(r, famSpellings[fam])})
		case 4:
			h = Pick(r, famSpellings[fam]) + Pick(r, []string{" +", "(", "[", "`{"})
		default:
			h = g.Program(r.Range(1, 2))
		}
		if sideFam != "" && r.Chance(1, 2) {
			h = "// #EnableDice " + macroNames[sideFam] + " true\n" + Pick(r, []string{"2d", "d + 1", "d"})
			fam = sideFam
		}
		if r.Chance(1, 5) {
			// the host turns families on for a while: a macro-free use while enabled, then off again (or the
			// other way round), by assigning to vm.Config between evaluations
			tf := fam
			if _, ok := macroNames[tf]; !ok {
				tf = Pick(r, []string{"coc", "wod", "dc", "fate"})
			}
			if sideFam != "" {
				tf = sideFam
			}
			use := Pick(r, famSpellings[tf])
			if sideFam != "" {
				use = Pick(r, []string{"2d", "d + 1", "d"})
			}
			sc.Cmds = append(sc.Cmds, Cmd{Kind: "flags", Src: tf + "=1"}, Cmd{Kind: "run", Src: use}, Cmd{Kind: "flags", Src: tf + "=0"})
			sc.Probe = append(sc.Probe, false, false, false)
			fam = tf
			if r.Bool() {
				// the very same text again, now that the family is off
				sc.Cmds = append(sc.Cmds, Cmd{Kind: "run", Src: use})
				sc.Probe = append(sc.Probe, true)
			}
		}
		sc.Cmds = append(sc.Cmds, Cmd{Kind: "run", Src: h})
		sc.Probe = append(sc.Probe, false)
		// probe: macro-free
		var p string
		switch r.Intn(5) {
		case 0, 1, 2:
			p = Pick(r, famSpellings[fam])
		case 3:
			k := r.Range(1, 7)
			for j := 0; j < k; j++ {
				p += Pick(r, alpha)
			}
		default:
			p = strings.ReplaceAll(g.Program(r.Range(1, 2)), "#EnableDice", "EnableDice")
		}
		if strings.Contains(p, "#EnableDice") {
			p = "1"
		}
		if sideFam != "" && r.Chance(1, 2) {
			p = Pick(r, []string{"2d", "d + 1", "d", "(d)d"})
		}
		kind := "run"
		if r.Chance(1, 8) {
			kind = "runexpr"
		}
		sc.Cmds = append(sc.Cmds, Cmd{Kind: kind, Src: p})
		sc.Probe = append(sc.Probe, true)
	}
	return sc
}

// cfgFingerprint captures every field of the VM's configuration a host can see.
func cfgFingerprint(vm *ds.Context) string {
	c := vm.Config
	fp := func(f any) uintptr {
		v := reflect.ValueOf(f)
		if v.Kind() != reflect.Func || v.IsNil() {
			return 0
		}
		return v.Pointer()
	}
	return fmt.Sprintf("%v|%v|%v|%v|%v|%v|%v|%v|%v|%v|%q|%v|%v|%v|%v|%x|%x|%x|%x|%x|%x|%x",
		c.EnableDiceWoD, c.EnableDiceCoC, c.EnableDiceFate, c.EnableDiceDoubleCross, c.DisableBitwiseOp, c.DisableStmts, c.DisableNDice,
		c.ParseExprLimit, c.OpCountLimit, c.IgnoreDiv0, c.DefaultDiceSideExpr, c.PrintBytecode, c.ParseErrorLanguage, c.DiceMinMode, c.DiceMaxMode,
		fp(c.HookValueStore), fp(c.HookValueLoadPre), fp(c.HookValueLoadPost), fp(c.CallbackSt), fp(c.CustomMakeDetailFunc), fp(c.CustomDetailSpanRewriteFunc), fp(c.CustomDetailRewriteFunc))
}

func gatedFamily(op string) string {
	switch {
	case op == "coc.bonus" || op == "coc.penalty":
		return "coc"
	case op == "dice.fate":
		return "fate"
	case op == "dice.wod" || strings.HasPrefix(op, "wod."):
		return "wod"
	case op == "dice.dc" || strings.HasPrefix(op, "dc."):
		return "dc"
	case op == "push.def_expr":
		return "ndice"
	case op == "&" || op == "|":
		return "bit"
	case op == "push.func" || op == "block.push" || op == "block.pop" || op == "ret":
		return "stmt"
	}
	return ""
}

func famOff(cfg CfgSpec, fam string) bool {
	switch fam {
	case "coc":
		return !cfg.CoC
	case "fate":
		return !cfg.Fate
	case "wod":
		return !cfg.WoD
	case "dc":
		return !cfg.DC
	case "ndice":
		return cfg.NoND
	case "bit":
		return cfg.NoBitwise
	case "stmt":
		return cfg.NoStmts
	}
	return false
}

// listing returns the opcodes of a program and of every function / computed body it pushes.
func listing(ops []ds.VerifOp, depth int, out *[]ds.VerifOp) {
	if depth > 8 {
		return
	}
	for _, o := range ops {
		*out = append(*out, o)
		if v, ok := o.Value.(*ds.VMValue); ok && v != nil {
			if body, ok := ds.VerifBodies(v); ok {
				listing(body, depth+1, out)
			}
		}
	}
}

func c16Exec(raw json.RawMessage, res *RunResult) {
	var sc C16Scenario
	if err := json.Unmarshal(raw, &sc); err != nil {
		res.Violate("harness-scenario", "bad scenario: %v", err)
		return
	}
	dg := &Digest{}
	ds.VerifSortedRange = false // Range is sorted by the library itself since the C06 fix; the real loop runs
	m := &Meter{HugeLimit: 4 << 20, KeepLedger: true}
	m.Install()
	defer Uninstall()
	ResetGlobals(sc.GlobalSeed)
	vm := sc.Cfg.NewVM()
	want := cfgFingerprint(vm)
	var key []string
	probes := 0
	curCfg := sc.Cfg // the switches in force (the host may assign to vm.Config between evaluations)
	for i, c := range sc.Cmds {
		if c.Kind == "flags" {
			DoCmd(vm, c)
			for _, kv := range strings.Split(c.Src, ",") {
				k, v, _ := strings.Cut(kv, "=")
				on := v == "1"
				switch k {
				case "coc":
					curCfg.CoC = on
				case "wod":
					curCfg.WoD = on
				case "fate":
					curCfg.Fate = on
				case "dc":
					curCfg.DC = on
				}
			}
			want = cfgFingerprint(vm)
			res.Fault("host_changes_switches")
			key = append(key, c.Src)
			continue
		}
		isProbe := i < len(sc.Probe) && sc.Probe[i]
		if isProbe {
			// stored values are data, not syntax: a function compiled under a macro earlier is outside this
			// property; the probe meets only the Context's own state
			vm.Attrs.Clear()
		}
		m.Reset()
		m.Budget = 200_000
		executed := map[string]int{}
		dicePerFam := map[string]int{}
		cur := ""
		m.OnStep = func(s *ds.VerifStep) bool {
			cur = gatedFamily(ds.VerifOpName(s.Code))
			if cur != "" {
				executed[cur]++
			}
			return false
		}
		var o *Outcome
		parsed := false
		macroFree := !strings.Contains(c.Src, "#EnableDice")
		if macroFree && c.Kind == "run" {
			// Parse and run separately: the listing exists only if this input was accepted
			o = DoCmd(vm, Cmd{Kind: "parse", Src: c.Src})
			if o.Err == "" && o.Panic == "" {
				parsed = true
				o = DoCmd(vm, Cmd{Kind: "rerun"})
			}
		} else {
			o = DoCmd(vm, c)
		}
		m.OnStep = nil
		for _, d := range m.Ledger {
			if f := gatedFamily(d.Op); f != "" {
				dicePerFam[f]++
			}
		}
		res.Evals++
		res.Ticks += m.Ticks
		dg.Add("cmd", c.Src, o.Key())
		key = append(key, c.Src)
		if got := cfgFingerprint(vm); got != want {
			res.Violate("config-changed", "Context.Config differs after command %d\n  src=%q\n  before=%s\n  after= %s", i, c.Src, want, got)
			want = got
		}
		if !macroFree || o.Panic != "" {
			if !macroFree {
				res.Fault("macro_in_history")
			}
			continue
		}
		if !isProbe {
			res.Probe("macro_free_history_input_checked")
		}
		probes++
		// the compiled probe: main listing and nested bodies
		var ops []ds.VerifOp
		if parsed {
			listing(ds.VerifCode(vm), 0, &ops)
			res.Probe("probe_listing_checked")
		}
		for _, op := range ops {
			fam := gatedFamily(op.Name)
			if fam == "" || !famOff(curCfg, fam) {
				continue
			}
			if fam == "stmt" && op.Name == "ret" {
				continue
			}
			res.Violate("gated-opcode-compiled@"+fam, "with %s disabled and no macro in the input, %q compiled to the instruction %q\n  history=%s", fam, c.Src, op.Text, fmtCmds(sc.Cmds[:i]))
			break
		}
		// backward jumps = loops
		if sc.Cfg.NoStmts {
			for _, op := range ops {
				if op.Name == "jmp" {
					if v, ok := op.Value.(ds.IntType); ok && v < 0 {
						res.Violate("gated-opcode-compiled@stmt", "with statements disabled, %q compiled to a backward jump\n  history=%s", c.Src, fmtCmds(sc.Cmds[:i]))
						break
					}
				}
			}
		}
		for fam, n := range executed {
			if famOff(curCfg, fam) && fam != "stmt" {
				res.Violate("gated-opcode-executed@"+fam, "with %s disabled and no macro in the input, %q executed %d instruction(s) of that family (dice drawn meanwhile: %d)\n  history=%s", fam, c.Src, n, dicePerFam[fam], fmtCmds(sc.Cmds[:i]))
			}
		}
		res.State(HashStr(fmt.Sprint(sc.Cfg.CoC, sc.Cfg.WoD, sc.Cfg.Fate, sc.Cfg.DC, sc.Cfg.NoStmts, sc.Cfg.NoND, sc.Cfg.NoBitwise)))
	}
	res.ProbeN("probes", probes)
	res.Digest = dg.Hex()
	res.Nontrivial = probes >= 2
	res.CaseKey = HashStr(strings.Join(key, "\x00") + fmt.Sprint(sc.Cfg))
}

func c16Shrink(raw json.RawMessage) []json.RawMessage {
	var sc C16Scenario
	if json.Unmarshal(raw, &sc) != nil {
		return nil
	}
	var out []json.RawMessage
	emit := func(f func(s *C16Scenario)) {
		var c C16Scenario
		json.Unmarshal(raw, &c)
		f(&c)
		out = append(out, MustJSON(&c))
	}
	for i := range sc.Cmds {
		i := i
		if len(sc.Cmds) > 1 {
			emit(func(s *C16Scenario) {
				s.Cmds = append(append([]Cmd{}, s.Cmds[:i]...), s.Cmds[i+1:]...)
				s.Probe = append(append([]bool{}, s.Probe[:i]...), s.Probe[i+1:]...)
			})
		}
	}
	for i, c := range sc.Cmds {
		i := i
		cands := shrinkText(c.Src)
		if len(cands) > 14 {
			cands = cands[:14]
		}
		for _, t := range cands {
			t := t
			if sc.Probe[i] && strings.Contains(t, "#EnableDice") {
				continue
			}
			emit(func(s *C16Scenario) { s.Cmds[i].Src = t })
		}
	}
	return out
}

func init() {
	Register(&Check{
		ID: "C16", Level: "exploration",
		QuickRuns: 20000, ThoroughRuns: 800000,
		Gen: c16Gen, Exec: c16Exec, Shrink: c16Shrink,
		Rule: "one case = one VM under one of the 2^4 dice-family settings x DisableStmts/NDice/BitwiseOp, running 2-5 pairs [history command: an input with an #EnableDice macro (enabling or disabling, sometimes followed by a syntax error or a second macro), an st line whose values push/pop the parser flags, a failing input, or a generated program] -> [macro-free probe: a spelling of a gated family (b2, 3a8, 2c5, f, if/while/func, 2d, 1|2, ...), a random mix over a b c f p d k q m digits and parentheses, or a generated program using every family]. After every command Context.Config must be identical (every flag, limit and callback); each probe's compiled listing incl. the bodies of functions and computed values it defines must contain no instruction of a family that is off (no backward jump, block or function value with statements disabled), and none may execute. distinct = distinct (settings, command texts); non-trivial = at least 2 probes",
		Real: []string{"flag predicates of the grammar, flagsSwitch macro, est flag push/pop, Parse's copy of the configuration"},
		Stub: []string{"none beyond the instruction/roll hooks used to observe"},
		Assumptions: []string{"only generated spellings are searched: the claim is the history clause (macros and st-flag pushes never leak), not that no spelling re-opens a feature", "variables are cleared before each probe: a function compiled under a macro in an earlier input is data, not syntax"},
	})
}
