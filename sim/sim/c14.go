package sim

import (
	"encoding/json"
	"fmt"
	"strconv"
	"strings"

	ds "github.com/sealdice/dicescript"
)

// C14 (narrow) — observing is harmless and idempotent (observation events injected at arbitrary
// points of a session, twin run with/without them); every dice annotation's value is the total of
// the dice the ledger recorded while that instruction ran; and, input-driven (stated as such), for
// generated dice arithmetic the process text with its annotations removed evaluates to the result.

type arithItem struct {
	Dice *DiceSpec `json:",omitempty"`
	Lit  int64     `json:",omitempty"`
	Var  string    `json:",omitempty"`
	Raw  string    `json:",omitempty"` // a dice expression without a per-term rulebook (chained / nested rolls)
	Op   string    `json:",omitempty"` // operator before this item ("" for the first)
	Open int       `json:",omitempty"` // parentheses opened before / closed after
	Close int      `json:",omitempty"`
	Pre, Post string `json:",omitempty"` // whitespace
}

type C14Scenario struct {
	Mode       string // observe | arith
	GlobalSeed uint64
	Cfg        CfgSpec
	Cmds       []Cmd   `json:",omitempty"`
	Bursts     [][]int `json:",omitempty"` // Bursts[i] = number of observation bursts after command i (one entry per command)
	Items      []arithItem `json:",omitempty"`
	Source     string  `json:",omitempty"` // die source for arith: pcg | low | high | alt | uniform
	Seed       uint64  `json:",omitempty"`
}

var c14Vars = map[string]int64{"力量": 60, "x": 3, "敏捷": 7, "hp": 12, "$t": 2}

func c14Gen(seed uint64, tier string) any {
	r := NewRng(seed)
	sc := &C14Scenario{GlobalSeed: r.U64()}
	if r.Chance(2, 5) {
		sc.Mode = "observe"
		cfg := GenCfg(r).Tame()
		cfg.Seeded = true
		cfg.OpLimit = 30000
		sc.Cfg = cfg
		o := SwarmOpts(r, cfg)
		o.Dice = true
		o.BrokenTail = Pick(r, []int{0, 200, 500})
		o.BigNums = false
		g := NewProgGen(r.Fork(), o)
		n := r.Range(2, 7)
		for i := 0; i < n; i++ {
			src := g.Program(r.Range(1, 3))
			if r.Chance(1, 5) {
				src = Pick(r, []string{"[x,2]\n[x,2]", "d20 + 力量", "`{2d6} 点`", "&cv = 2d6; cv + cv", "func ff(p) { return p + d4 }; ff(2d6)",
					// long values loaded with detail: the text may abbreviate them, the values must stay as they are
					"xs = [100..140]; xs.len() + 2d6", "xs = [100..140]; xs[3] + d6", "xs = [100..140]; xs", "long = [1000..1030]; &cv = long[8] + long[9] + d4; cv", "ys = [100..120] + [200..220]; ys[8] * 1000 + ys[9] + d2",
					"dd = {'a': [100..140], 'b': '" + strings.Repeat("长文本", 20) + "'}; dd.a[9] + d6", "s1 = '" + strings.Repeat("abcdefghij", 12) + "'; s1 + `{d6}`"})
			}
			switch r.Intn(6) {
			case 0:
				sc.Cmds = append(sc.Cmds, Cmd{Kind: "parse", Src: src}, Cmd{Kind: "rerun"}, Cmd{Kind: "rerun"})
			default:
				sc.Cmds = append(sc.Cmds, Cmd{Kind: "run", Src: src})
			}
		}
		for range sc.Cmds {
			sc.Bursts = append(sc.Bursts, []int{Pick(r, []int{0, 0, 1, 1, 2, 3})})
		}
		return sc
	}
	sc.Mode = "arith"
	sc.Cfg = CfgSpec{WoD: true, CoC: true, Fate: true, DC: true, Seeded: true, SeedA: r.U64(), SeedB: r.U64()}
	sc.Source = Pick(r, []string{"pcg", "pcg", "low", "high", "alt", "uniform"})
	sc.Seed = r.U64()
	n := r.Range(1, 6)
	ws := func() string {
		return Pick(r, []string{"", "", " ", "  ", "\n", " \n ", "\t"})
	}
	depth := 0
	for i := 0; i < n; i++ {
		it := arithItem{}
		if i > 0 {
			it.Op = Pick(r, []string{"+", "+", "-", "*"})
		}
		if r.Chance(1, 4) && i < n-1 {
			it.Open = 1
			depth++
		}
		switch r.Intn(7) {
		case 6:
			it.Raw = Pick(r, []string{"2d6d4", "3d4d6d8", "2d4d10", "(2d4)d6", "2d(2d4)", "d4d6", "2d6k1d4", "(d4+1)d6", "3d(d4)k2", "2d3d2d2", "d(2d4)",
				// operands holding several rolls / loads of their own
				"(d4+d6)d8", "(2d3)d(d4)", "(d4*2+d6-d3)d8", "(x+hp)d6", "(d4+d6)d(d3+d2)", "(d2+d2+d2)d4k2", "((d2+d3)d4+d2)d6", "(d4+力量)d2",
				// blanks, tabs and line breaks after a parenthesised operand (the grammar swallows them) before the chain goes on
				"2d(3) d4", "2d(3)\nd4", "2d6k(1) d4", "d(4)  d6", "2d(2)\td3", "(2d4) d6", "2d(3) d(2) d4", "3d(2) k2", "2d(3) 优势"})
		case 0:
			it.Lit = int64(r.Range(0, 30))
		case 1:
			names := []string{"力量", "x", "敏捷", "hp", "$t"}
			it.Var = names[r.Intn(len(names))]
		default:
			var d DiceSpec
			for {
				d = genDiceSpec(r)
				if !d.legal() || d.Times > 10 || d.Pool > 12 || d.N > 4 || d.Sides > 1<<30 {
					continue
				}
				if (d.Fam == "wod" || d.Fam == "dc") && d.AddLine != 0 && d.AddLine*2 <= d.Points+1 {
					continue
				}
				break
			}
			d.Via, d.Source = "vm", "pcg"
			if d.HasMin && d.HasMax {
				d.HasMax = false // the grammar takes one of min / max per term
			}
			it.Dice = &d
		}
		if depth > 0 && r.Chance(1, 2) && it.Open == 0 {
			it.Close = 1
			depth--
		}
		// white space: after an operator line breaks are fine; before one only blanks (a line break ends the statement)
		it.Pre = ws()
		it.Post = Pick(r, []string{"", "", " ", "  ", "\t"})
		sc.Items = append(sc.Items, it)
	}
	if depth > 0 {
		sc.Items[len(sc.Items)-1].Close += depth
	}
	return sc
}

// render returns the expression and the byte range of each dice term.
func (sc *C14Scenario) render() (string, map[int][2]int) {
	var sb strings.Builder
	pos := map[int][2]int{}
	for i, it := range sc.Items {
		if it.Op != "" {
			sb.WriteString(it.Op)
			sb.WriteString(it.Pre)
		}
		sb.WriteString(strings.Repeat("(", it.Open))
		start := sb.Len()
		switch {
		case it.Dice != nil:
			sb.WriteString(it.Dice.term())
			pos[i] = [2]int{start, sb.Len()}
		case it.Raw != "":
			sb.WriteString(it.Raw)
		case it.Var != "":
			sb.WriteString(it.Var)
		default:
			sb.WriteString(strconv.FormatInt(it.Lit, 10))
		}
		sb.WriteString(strings.Repeat(")", it.Close))
		sb.WriteString(it.Post)
	}
	return sb.String(), pos
}

// stripAnnotations removes every balanced [...] group.
func stripAnnotations(s string) (string, bool) {
	var sb strings.Builder
	depth := 0
	for _, c := range s {
		switch {
		case c == '[':
			depth++
		case c == ']':
			depth--
			if depth < 0 {
				return "", false
			}
		case depth == 0:
			sb.WriteRune(c)
		}
	}
	return sb.String(), depth == 0
}

// rawObserve reads the outcome without calling any observer of the library (no ToString, no
// GetDetailText): result in canonical form, matched/rest, counter, generator, variables.
func rawObserve(vm *ds.Context, o *Outcome) {
	if o.Panic != "" {
		return
	}
	if o.Err == "" && vm.Ret != nil && o.Kind != "parse" {
		o.HasRet = true
		o.Ret = Canon(vm.Ret)
		o.Matched = vm.Matched
		o.Rest = vm.RestInput
	}
	o.NumOp = int64(vm.NumOpCount)
	o.Seed = seedHex(vm)
	o.Attrs = CanonMap(vm.Attrs)
}

func c14Observe(sc *C14Scenario, m *Meter, res *RunResult, dg *Digest) {
	run := func(withBursts bool) ([]*Outcome, string) {
		ResetGlobals(sc.GlobalSeed)
		vm := sc.Cfg.NewVM()
		var outs []*Outcome
		parsedOK := false
		for i, c := range sc.Cmds {
			if c.Kind == "rerun" && !parsedOK {
				outs = append(outs, &Outcome{Kind: "skipped"})
				continue
			}
			m.Reset()
			m.Budget = 300_000
			// the outcome is read without the observers (raw fields only), the observers are the fault
			o := &Outcome{Kind: c.Kind}
			var err error
			p, _, _, sig, _ := Guard(func() {
				switch c.Kind {
				case "run":
					err = vm.Run(c.Src)
				case "parse":
					err = vm.Parse(c.Src)
				case "rerun":
					err = vm.RunAfterParsed()
				}
			})
			if p {
				o.Panic = sig
				vm.IsRunning = false
			}
			if err != nil {
				o.Err = err.Error()
			}
			if m.Cancelled {
				o.Err = "<cancelled>"
			}
			if c.Kind == "run" || c.Kind == "parse" {
				parsedOK = !p && err == nil
			}
			rawObserve(vm, o)
			if withBursts && i < len(sc.Bursts) {
				for k := 0; k < sc.Bursts[i][0]; k++ {
					seen1, p1 := ObservationBurst(vm)
					if p1 != "" {
						return outs, "observe-panic: " + p1
					}
					_ = seen1
					res.Fault("observe")
				}
			}
			outs = append(outs, o)
			// the outcome is captured with the harness's own walker only (no library observer runs in
			// the unobserved twin at all); in the observed twin it was captured before the bursts
			res.Evals++
		}
		return outs, ""
	}
	a, errA := run(true)
	b, _ := run(false)
	if errA != "" {
		res.Probe("observation_panicked") // C01's subject
		return
	}
	for i := range sc.Cmds {
		if i >= len(a) || i >= len(b) {
			break
		}
		dg.Add("cmd", sc.Cmds[i].Src, b[i].Key())
		if f := DiffOutcome(a[i], b[i]); f != "" {
			res.Violate("observation-changes:"+f, "command %d differs in %s between a session with observation bursts (GetDetailText x2, GetAsmText, Ret.ToString/ToRepr/ToJSON, GetCurSeed, IsCalculateExists, GetErrorText) after earlier commands and the same session without them\n  src=%q\n  observed:   %s\n  unobserved: %s", i, f, sc.Cmds[i].Src, a[i].Short(), b[i].Short())
			break
		}
	}
	// idempotence of GetDetailText itself
	ResetGlobals(sc.GlobalSeed)
	vm := sc.Cfg.NewVM()
	for _, c := range sc.Cmds {
		if c.Kind != "run" {
			continue
		}
		m.Reset()
		m.Budget = 300_000
		o := DoCmd(vm, c)
		if o.Err != "" || o.Panic != "" || o.Extra == "huge-result" {
			continue
		}
		var d1, d2 string
		gen1 := seedHex(vm)
		p, _, _, _, _ := Guard(func() { d1 = vm.GetDetailText(); d2 = vm.GetDetailText() })
		if p {
			continue
		}
		if d1 != d2 {
			res.Violate("detail-not-idempotent", "GetDetailText returned two different texts in a row\n  src=%q\n  first=%q\n  second=%q", c.Src, d1, d2)
		}
		if seedHex(vm) != gen1 {
			res.Violate("detail-moves-generator", "GetDetailText changed the generator state\n  src=%q", c.Src)
		}
	}
	res.Nontrivial = len(sc.Cmds) >= 2
}

func c14Arith(sc *C14Scenario, m *Meter, res *RunResult, dg *Digest) {
	expr, pos := sc.render()
	ResetGlobals(sc.GlobalSeed)
	vm := sc.Cfg.NewVM()
	for k, v := range c14Vars {
		vm.Attrs.Store(k, ds.NewIntVal(ds.IntType(v)))
	}
	m.Reset()
	m.Budget = 300_000
	m.KeepLedger = true
	fd := &DiceSpec{Source: sc.Source, Seed: sc.Seed}
	m.Force = forcePolicy(fd)
	res.Fault("force_die_" + sc.Source)
	// segment the ledger by instruction: remember, for every dice instruction of the main program,
	// the span it annotates (the most recent mark.detail) and the ledger range it produced
	type seg struct {
		begin, end int
		from, to   int
		op         string
	}
	var segs []seg
	var curSpan [2]int
	open := -1
	m.OnStep = func(s *ds.VerifStep) bool {
		if s.Depth != 0 {
			return false
		}
		if open >= 0 {
			segs[open].to = len(m.Ledger)
			open = -1
		}
		name := ds.VerifOpName(s.Code)
		if name == "mark.detail" {
			if sp, ok := s.Code.Value.(ds.BufferSpan); ok {
				curSpan = [2]int{int(sp.Begin), int(sp.End)}
			}
		}
		switch name {
		case "dice", "dice.fate", "coc.bonus", "coc.penalty", "dice.wod", "dice.dc":
			segs = append(segs, seg{begin: curSpan[0], end: curSpan[1], from: len(m.Ledger), to: -1, op: name})
			open = len(segs) - 1
		}
		return false
	}
	o := DoCmd(vm, Cmd{Kind: "run", Src: expr})
	if open >= 0 {
		segs[open].to = len(m.Ledger)
	}
	m.OnStep = nil
	m.Force = nil
	res.Evals++
	res.Ticks += m.Ticks
	dg.Add("arith", expr, o.Key())
	if o.Err != "" || o.Panic != "" || m.Cancelled || strings.TrimSpace(o.Rest) != "" {
		res.Probe("expression_rejected_or_partial")
		return
	}
	res.Nontrivial = len(pos) > 0
	// (2) every annotation's value is the total of the dice drawn for it
	for i, rng := range pos {
		d := sc.Items[i].Dice
		var sg *seg
		for k := range segs {
			if segs[k].begin == rng[0] && segs[k].end == rng[1] {
				sg = &segs[k]
			}
		}
		if sg == nil {
			// the term was compiled to something else than one dice instruction over its own text
			res.Probe("term_without_own_span")
			continue
		}
		var faces []int64
		for _, e := range m.Ledger[sg.from:sg.to] {
			faces = append(faces, e.Face)
		}
		rr := rulebook(d, faces)
		if !rr.ok {
			res.Violate("annotation-dice-count@"+d.Fam, "%q in %q: %s", d.term(), expr, rr.reason)
			continue
		}
		var span *ds.BufferSpan
		for k := range vm.DetailSpans {
			sp := &vm.DetailSpans[k]
			if int(sp.Begin) == rng[0] && int(sp.End) == rng[1] && strings.HasPrefix(sp.Tag, "dice") {
				span = sp
			}
		}
		if span == nil || span.Ret == nil {
			res.Violate("annotation-missing@"+d.Fam, "no annotation for %q (bytes %d..%d) in %q; spans=%d", d.term(), rng[0], rng[1], expr, len(vm.DetailSpans))
			continue
		}
		if v, ok := span.Ret.ReadInt(); !ok || int64(v) != rr.total {
			res.Violate("annotation-value@"+d.Fam, "annotation of %q in %q shows %s, the dice drawn for it %v total %d", d.term(), expr, Canon(span.Ret), trunc(fmt.Sprint(faces), 120), rr.total)
		}
		res.Probe("annotation_checked")
	}
	// (3) input-driven: the text with annotations removed evaluates to the result
	if o.Detail != "" {
		stripped, ok := stripAnnotations(o.Detail)
		if !ok {
			res.Violate("detail-unbalanced", "process text has unbalanced brackets\n  src=%q\n  detail=%q", expr, o.Detail)
			return
		}
		f := CfgSpec{Seeded: true, SeedA: 1, SeedB: 2}.NewVM()
		m.Reset()
		m.Budget = 100_000
		o2 := DoCmd(f, Cmd{Kind: "run", Src: stripped})
		res.Evals++
		if o2.Err != "" || o2.Panic != "" || o2.Ret != o.Ret || strings.TrimSpace(o2.Rest) != "" {
			res.Violate("stripped-detail-differs", "the process text with its annotations removed does not evaluate to the reported result\n  src=%q\n  detail=%q\n  stripped=%q -> %s\n  result=%s", expr, o.Detail, stripped, o2.Short(), o.Ret)
		}
		res.Probe("stripped_text_evaluated")
	}
	res.State(HashStr(fmt.Sprint(len(sc.Items), len(pos), sc.Source)))
}

func c14Exec(raw json.RawMessage, res *RunResult) {
	var sc C14Scenario
	if err := json.Unmarshal(raw, &sc); err != nil {
		res.Violate("harness-scenario", "bad scenario: %v", err)
		return
	}
	dg := &Digest{}
	ds.VerifSortedRange = false // Range is sorted by the library itself since the C06 fix; the real loop runs
	m := &Meter{HugeLimit: 4 << 20}
	m.Install()
	defer Uninstall()
	if sc.Mode == "observe" {
		c14Observe(&sc, m, res, dg)
		var key []string
		for _, c := range sc.Cmds {
			key = append(key, c.Src)
		}
		res.CaseKey = HashStr(strings.Join(key, "\x00"))
	} else {
		c14Arith(&sc, m, res, dg)
		e, _ := sc.render()
		res.CaseKey = HashStr(e + sc.Source)
	}
	res.Digest = dg.Hex()
}

func c14Shrink(raw json.RawMessage) []json.RawMessage {
	var sc C14Scenario
	if json.Unmarshal(raw, &sc) != nil {
		return nil
	}
	var out []json.RawMessage
	emit := func(f func(s *C14Scenario)) {
		var c C14Scenario
		json.Unmarshal(raw, &c)
		f(&c)
		out = append(out, MustJSON(&c))
	}
	if sc.Mode == "observe" {
		for i := range sc.Cmds {
			i := i
			if len(sc.Cmds) > 1 {
				emit(func(s *C14Scenario) {
					s.Cmds = append(append([]Cmd{}, s.Cmds[:i]...), s.Cmds[i+1:]...)
					s.Bursts = append(append([][]int{}, s.Bursts[:i]...), s.Bursts[i+1:]...)
				})
			}
		}
		for i := range sc.Bursts {
			i := i
			if sc.Bursts[i][0] > 0 {
				emit(func(s *C14Scenario) { s.Bursts[i][0] = 0 })
			}
		}
		for i, c := range sc.Cmds {
			i := i
			cands := shrinkText(c.Src)
			if len(cands) > 14 {
				cands = cands[:14]
			}
			for _, t := range cands {
				t := t
				emit(func(s *C14Scenario) { s.Cmds[i].Src = t })
			}
		}
		return out
	}
	for i := range sc.Items {
		i := i
		if len(sc.Items) > 1 && sc.Items[i].Open == 0 && sc.Items[i].Close == 0 {
			emit(func(s *C14Scenario) {
				s.Items = append(append([]arithItem{}, s.Items[:i]...), s.Items[i+1:]...)
				s.Items[0].Op = ""
			})
		}
		if sc.Items[i].Pre != "" || sc.Items[i].Post != "" {
			emit(func(s *C14Scenario) { s.Items[i].Pre, s.Items[i].Post = "", "" })
		}
	}
	return out
}

func init() {
	Register(&Check{
		ID: "C14", Level: "exploration",
		QuickRuns: 24000, ThoroughRuns: 600000,
		Gen: c14Gen, Exec: c14Exec, Shrink: c14Shrink,
		Rule: "two families. observe: a session of 2-7 commands (Run, Parse + RunAfterParsed x2, incl. failing programs) executed twice, with and without bursts of read-only API calls (GetDetailText x2, GetAsmText, Ret.ToString/ToRepr/ToJSON, GetCurSeed, IsCalculateExists, GetErrorText) injected 0-3 times after each command; all later outcomes, variables and generator bytes must be identical; GetDetailText twice in a row returns the same text and leaves the generator alone. arith (input-driven for the text clause): expressions of 1-6 items (dice terms of every family from the C04 grid, integer literals, multi-byte variables) joined by + - * with parentheses, blanks, tabs and line breaks, under a real stream or forced faces; for every dice term the annotation found at the term's byte range must carry the rulebook total of the faces the ledger recorded while that instruction ran; the process text with every [..] group removed must evaluate on a fresh VM to the reported result. distinct = distinct sessions / expressions; non-trivial = at least 2 commands / at least one dice term",
		Real: []string{"detail-span bookkeeping in the VM, makeDetailStr, GetDetailText cache, every observer of the public API"},
		Stub: []string{"die faces in forcing runs"},
		Assumptions: []string{"the 'text is the source with rolls spliced in' clause is checked only on generated dice arithmetic (stated as input-driven)"},
	})
}
