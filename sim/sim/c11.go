package sim

import (
	"strconv"
	"encoding/json"
	"fmt"
	"strings"
	"unicode/utf8"

	ds "github.com/sealdice/dicescript"
)

// C11 — independent VMs are race-free and behave exactly as when run alone.
// C19 — a VM's error language never leaks to another VM (shares the engine; different workload
// and oracle subset).

type SchedTaskSpec struct {
	Cfg  CfgSpec
	Cmds []Cmd
	// Custom: this VM's embedding program registers the custom dice syntax XX<digits> (every VM that
	// has it registers the byte-identical pattern, each with a handler of its own)
	Custom bool `json:",omitempty"`
}

type C11Scenario struct {
	Mode       string // "c11" | "c19"
	GlobalSeed uint64
	Tasks      []SchedTaskSpec
	Sched      SchedSpec
}

var rejectedInputs = []string{
	"", "(1+", "1 +", "[1,2", "{'a':1", "'abc", "`x{1", "1 2 @", "@", "）", "1 + * 2", "a(1+1+23=3", "x = ", "if 1 {", "while", "func f(",
	"(1 +\n\n2 @\n3)", "(1 +\n2 +\n\n\n3 @\n4)", "(1 +\n", "[1,\n\n\n 2,\n 3 @]", "(\r\n\r\n1 +\r\n @)", "{'a':\n\n\t\t1 @}", "(力量 +\n\n  敏捷 @ 3)", "[1,\n2,\n\n3,\n\n\n4 4]", "(\n\n\n\n)", "`{\n\n1 +}`",
	"力量 + ", "1 +\n  2 +\n  (3", "'多字节文本' + (", "abc\ndef\n  ghi + ", "\n\n1 +", "x = 1\ny = (2", "# bad", "1 ? ", "[1..", "a.b.", "d +",
	"&\nabc", "(1 + &\n2)", "(.\n", "[1, &\n2]", "{a: &\n}", "x.\n y", "1 + &\n",
	"^st力量＝50", "^st。", "＋％", "`{1，}`", " ，1", "^st hp：3", "1 +，", "x = 1；", "^st 力量＋", "a ＞", "^st敏捷（", "1 ％ 2 ＠", "力量 ＆",
	strings.Repeat("x", 70) + " + (", strings.Repeat("长", 30) + " + ", "1 +" + strings.Repeat(" ", 80), "\t\t(", "\"\\", "1d", "^st",
}

// brokenSnapshot: stored variables with bodies that do not parse (multi-line, multi-byte).
const brokenSnapshot = `{"bad1":{"t":5,"v":{"expr":"(1 + 2"}},"bad2":{"t":5,"v":{"expr":"(力量 +\n\n  (3 @ 4)"}},"badf":{"t":8,"v":{"expr":"[1, @","name":"badf","params":[]}},"ok1":{"t":0,"v":3}}`

var brokenBodyText = map[string]string{"bad1": "(1 + 2", "bad2": "(力量 +\n\n  (3 @ 4)", "badf()": "[1, @"}

// usesBrokenBody reports whether a program reads one of brokenSnapshot's unparsable bodies (their
// syntax errors are positioned within the body's text, not the command's).
func usesBrokenBody(src string) bool {
	return strings.Contains(src, "bad1") || strings.Contains(src, "bad2") || strings.Contains(src, "badf")
}

// lazyTexts compile differently under different flag settings (dice families, bitwise, statements).
var lazyTexts = []string{"5a10 + 1", "b2", "p1 + 1", "4 | 2", "3c7 + 2", "f + 3", "2d", "if 1 { 2 } else { 3 }", "3a8k6", "1 & 3", "b + p", "2c5m6", "d + 1", "x1 = 2; x1 * 3", "[1,2,3].sum()"}

func c11GenMode(mode string) func(seed uint64, tier string) any {
	return func(seed uint64, tier string) any {
		r := NewRng(seed)
		sc := &C11Scenario{Mode: mode, GlobalSeed: r.U64()}
		nt := r.Range(2, 4)
		// one default-sides text per scenario: VMs with different flags often configure the same text
		sharedSide := Pick(r, []string{"20", "6", "f + 10", "b1", "2 | 5", "3a9 + 4", "面数 ?? 6", "3|4", "p1 + 2", "(20 + 1", "[6,", "力量 +\n (", "10 +"})
		customScenario := r.Chance(1, 4)
		for t := 0; t < nt; t++ {
			cfg := GenCfg(r)
			cfg.Lang = r.Intn(3)
			cfg.OpLimit = 20000
			cfg.NoStmts = false
			cfg = cfg.Tame()
			if mode == "c11" && r.Chance(1, 3) || mode == "c19" && r.Chance(1, 4) {
				cfg.DefaultSide = sharedSide
				if r.Chance(1, 4) {
					cfg.DefaultSide = Pick(r, []string{"20", "6", "f + 10", "b1", "2 | 5", "3a9 + 4", "面数 ?? 6"})
				}
				cfg.NoND = false
			}
			if mode == "c11" && r.Chance(1, 3) {
				cfg.Seeded = false
			}
			if r.Chance(1, 3) {
				// a parse budget: parses of this VM are abandoned at an arbitrary depth (a crash point inside
				// the parser); whatever the parser shares with other VMs must survive that
				cfg.ParseLimit = uint64(r.Range(3, 600))
			}
			o := SwarmOpts(r, cfg)
			o.MaxDepth = r.Range(1, 3)
			o.BigNums = false
			o.RandMeth = r.Chance(1, 3)
			o.BrokenTail = Pick(r, []int{0, 150, 400})
			if mode == "c19" {
				o.BrokenTail = 700
			}
			o.DictMulti = true
			g := NewProgGen(r.Fork(), o)
			ts := SchedTaskSpec{Cfg: cfg, Custom: customScenario && r.Chance(3, 4)}
			nc := r.Range(2, 5)
			brokenBodies := r.Chance(1, 4)
			if brokenBodies {
				// variables restored from a stored snapshot whose function / computed bodies no longer parse
				// (compiled on first use, in a sub-VM); the host may change its error language in between
				ts.Cmds = append(ts.Cmds, Cmd{Kind: "restore", Src: brokenSnapshot})
			}
			for c := 0; c < nc; c++ {
				var src string
				if brokenBodies && r.Chance(1, 2) {
					if r.Chance(1, 2) {
						ts.Cmds = append(ts.Cmds, Cmd{Kind: "lang", Src: strconv.Itoa(r.Intn(3))})
					}
					ts.Cmds = append(ts.Cmds, Cmd{Kind: "run", Src: Pick(r, []string{"bad1", "1 + bad1 * 2", "badf()", "ok1 + badf()", "bad2", "`{bad1}`", "ok1"})})
					continue
				}
				switch {
				case mode == "c19" && r.Chance(2, 3), mode == "c11" && r.Chance(1, 5):
					src = Pick(r, rejectedInputs)
					if r.Chance(1, 3) {
						src = g.Program(r.Range(0, 2)) + src
					}
				case r.Chance(1, 4):
					// method calls on shared prototype objects, built-ins, computed values
					src = Pick(r, []string{
						"xs = [3,1,2]; xs.push(4); xs.kh(2) + xs.len()", "[1,2,3].sum() + abs(-2)", "o = {'a':1}; o.keys().len() + o.len()",
						"&cv = 2d6 + 1; cv + cv.compute()", "func ff(p) { return p * 2 }; ff(3) + ff(4)", "dir([1]).len()", "s = toStr(12) + repr('x'); s",
						"[1,2,3].shuffle(); 1", "`{2d6} 和 {d20}`", "load('xs') ?? 1", "typeId([]) + typeId({})",
						"func g1() { 7 }; func f1() { g1() + 1 }; f1() + f1()", "func k1(p) { p * 3 }; k1(2) + k1(k1(1))", "&c1 = 5 + 1; &c2 = c1 * 2; c2 + c1", "func u1() { 1001 }; u1(); u1(); u1()",
						"func w1(p) { if p > 0 { return w1(p-1) + 1 }; return 0 }; w1(4)",
					})
				default:
					src = g.Program(r.Range(1, 3))
				}
				if ts.Custom && r.Chance(1, 2) {
					n1, n2 := r.Range(0, 99), r.Range(100, 9999)
					src = Pick(r, []string{fmt.Sprintf("XX%d + 1", n1), fmt.Sprintf("XX%d * 2 + XX%d", n2, n1), fmt.Sprintf("func cx() { return XX%d }; cx() + XX%d", n1, n2), fmt.Sprintf("XX%d + (", n2), fmt.Sprintf("`{XX%d}-{XX%d}`", n1, n2)})
				}
				ts.Cmds = append(ts.Cmds, Cmd{Kind: "run", Src: src})
				if cfg.DefaultSide != "" && r.Chance(1, 2) {
					// a die without a face count: its sides come from the configured text, compiled on first use
					ts.Cmds = append(ts.Cmds, Cmd{Kind: "run", Src: Pick(r, []string{"d", "2d + d", "d + 1", "(d)d", "func sd() { return d }; sd() + d"})})
				}
				if mode == "c11" && r.Chance(1, 4) {
					// lazily compiled text (RunExpr): the same few texts are used by VMs with different
					// flags, in this scenario and in others executed by the same process
					ts.Cmds = append(ts.Cmds, Cmd{Kind: "runexpr", Src: Pick(r, lazyTexts), Local: r.Bool()})
				}
			}
			sc.Tasks = append(sc.Tasks, ts)
		}
		sc.Sched = SchedSpec{Strategy: r.Intn(3), Seed: r.U64()}
		return sc
	}
}

// errorLanguageOK checks that a syntax-error text is written only in the configured language.
func errorLanguageOK(text string, lang int) (bool, string) {
	return errorLanguageOKFor(text, lang, "")
}

// errorLanguageOKFor also looks at the wording: an English-only message holds no Han character or
// full-width punctuation, a Chinese-only message no English word, except what the message quotes
// from the input (src; "" = not checked).
func errorLanguageOKFor(text string, lang int, src string) (bool, string) {
	if !strings.Contains(text, "语法错误") && !strings.Contains(text, "Syntax Error") {
		return true, "" // not a formatted syntax error
	}
	if src != "" {
		switch lang {
		case ds.ParseErrorLanguageEnglish:
			for _, r := range text {
				cjk := r >= 0x4E00 && r <= 0x9FFF || r >= 0x3000 && r <= 0x303F || r >= 0xFF00 && r <= 0xFFEF
				if cjk && !strings.ContainsRune(src, r) {
					return false, fmt.Sprintf("english-only message contains %q, which is not quoted from the input", string(r))
				}
			}
		case ds.ParseErrorLanguageChinese:
			word := ""
			flush := func() string {
				w := word
				word = ""
				if len(w) >= 4 && !strings.Contains(src, w) {
					return w
				}
				return ""
			}
			for _, r := range text + " " {
				if r >= 'a' && r <= 'z' || r >= 'A' && r <= 'Z' {
					word += string(r)
					continue
				}
				if w := flush(); w != "" {
					return false, fmt.Sprintf("chinese-only message contains the english word %q, which is not quoted from the input", w)
				}
			}
		}
	}
	hasEn := strings.Contains(text, "Syntax Error") || strings.Contains(text, "  Pos ")
	hasCn := strings.Contains(text, "语法错误") || strings.Contains(text, "  位置 ")
	bothEn := strings.Contains(text, "Syntax Error") && strings.Contains(text, "  Pos ")
	bothCn := strings.Contains(text, "语法错误") && strings.Contains(text, "  位置 ")
	switch lang {
	case ds.ParseErrorLanguageChinese:
		if hasEn || !bothCn {
			return false, "chinese-only VM got english parts"
		}
	case ds.ParseErrorLanguageEnglish:
		if hasCn || !bothEn {
			return false, "english-only VM got chinese parts"
		}
	default:
		if !(bothEn && bothCn) {
			return false, "bilingual VM got a single-language message"
		}
	}
	return true, ""
}

// errorGeometryOK monitors line/column/caret arithmetic of a syntax-error text against its input.
func errorGeometryOK(text, input string) (bool, string) {
	if !strings.Contains(text, "语法错误") && !strings.Contains(text, "Syntax Error") {
		return true, ""
	}
	var line, col int
	idx := strings.LastIndex(text, "Pos ")
	key := "Pos "
	if idx < 0 {
		idx = strings.LastIndex(text, "位置 ")
		key = "位置 "
	}
	if idx < 0 {
		return false, "no position in message"
	}
	if _, err := fmt.Sscanf(text[idx+len(key):], "%d:%d", &line, &col); err != nil {
		return false, "unparsable position"
	}
	// every place that states the position states the same one: the 'L:C (offset):' prefix, the Chinese
	// line and the English line
	var pl, pc, po int
	havePrefix := false
	if _, err := fmt.Sscanf(text, "%d:%d (%d)", &pl, &pc, &po); err == nil {
		havePrefix = true
		if pl != line || pc != col {
			return false, fmt.Sprintf("the prefix says %d:%d, the position line says %d:%d", pl, pc, line, col)
		}
	}
	for _, k := range []string{"位置 ", "Pos "} {
		if i := strings.LastIndex(text, k); i >= 0 {
			var l2, c2 int
			if _, err := fmt.Sscanf(text[i+len(k):], "%d:%d", &l2, &c2); err == nil && (l2 != line || c2 != col) {
				return false, fmt.Sprintf("%q says %d:%d, another part of the message says %d:%d", strings.TrimSpace(k), l2, c2, line, col)
			}
		}
	}
	if input == "" {
		return true, ""
	}
	if havePrefix {
		if po < 0 || po > len(input) {
			return false, fmt.Sprintf("offset %d outside the input of %d bytes", po, len(input))
		}
		// line and column of that offset, the way the parser counts: a line break starts the next
		// line at column 0, every other character advances the column
		l, c := 1, 0
		at := func(l, c int) bool { return l == line && c == col }
		okPos := false
		for b, r := range input {
			if b > po {
				break
			}
			if r == '\n' {
				l, c = l+1, 0
			} else {
				c++
			}
			if b == po {
				okPos = at(l, c)
			}
		}
		if po == len(input) {
			okPos = at(l, c) || at(l, c+1)
		}
		if !okPos && utf8.ValidString(input) {
			return false, fmt.Sprintf("offset %d is not at line %d column %d of the input", po, line, col)
		}
	}
	lines := strings.Split(input, "\n")
	if line < 1 || line > len(lines) {
		return false, fmt.Sprintf("line %d outside input of %d lines", line, len(lines))
	}
	// the reported column counts runes; it must lie within the line (one past the end allowed)
	if col < 0 || col > utf8.RuneCountInString(lines[line-1])+1 {
		return false, fmt.Sprintf("column %d outside line %d (%d runes)", col, line, utf8.RuneCountInString(lines[line-1]))
	}
	// quoted line and caret
	tl := strings.Split(text, "\n")
	for i, l := range tl {
		if strings.HasPrefix(l, "  |  ") && i+1 < len(tl) && strings.HasSuffix(tl[i+1], "^") && strings.HasPrefix(tl[i+1], "  |  ") {
			quoted := strings.TrimPrefix(l, "  |  ")
			want := lines[line-1]
			if len(want) > 60 {
				want = want[:57] + "..."
			}
			if quoted != want {
				return false, fmt.Sprintf("quoted line %q is not line %d %q", quoted, line, want)
			}
			caret := len(strings.TrimPrefix(tl[i+1], "  |  ")) - 1
			wantCaret := col - 1
			if wantCaret < 0 {
				wantCaret = 0
			}
			if caret != wantCaret {
				return false, fmt.Sprintf("caret at %d, column %d", caret, col)
			}
			break
		}
	}
	return true, ""
}

func runScript(cfg CfgSpec, cmds []Cmd, custom bool) []*Outcome {
	vm := cfg.NewVM()
	if custom {
		NewHost(HostSpec{Custom: true, CustomTok: "XX", HandlerPlan: "vvvvvvvvvvvvvvvvvvvvvvvv"}, nil).Install(vm)
	}
	var out []*Outcome
	for _, c := range cmds {
		out = append(out, DoCmd(vm, c))
	}
	return out
}

func c11Exec(raw json.RawMessage, res *RunResult) {
	var sc C11Scenario
	if err := json.Unmarshal(raw, &sc); err != nil {
		res.Violate("harness-scenario", "bad scenario: %v", err)
		return
	}
	dg := &Digest{}
	ds.VerifSortedRange = false // Range is sorted by the library itself since the C06 fix; the real loop runs
	ds.VerifStepHook, ds.VerifRollHook = nil, nil
	n := len(sc.Tasks)

	// 1. every task alone (fresh globals each time): the reference behaviour
	alone := make([][]*Outcome, n)
	for i, t := range sc.Tasks {
		ResetGlobals(sc.GlobalSeed)
		alone[i] = runScript(t.Cfg, t.Cmds, t.Custom)
		res.Evals += len(t.Cmds)
		if t.Cfg.ParseLimit > 0 {
			res.Fault("parse_budget_configured")
			for _, o := range alone[i] {
				if strings.Contains(o.Err, "max number of expressions parsed") {
					res.Fault("parse_abandoned")
				}
			}
		}
	}

	// 2. all tasks under the scheduler; each builds its VM inside its own goroutine
	ResetGlobals(sc.GlobalSeed)
	together := make([][]*Outcome, n)
	s := NewSched(sc.Sched, n)
	fns := make([]func(), n)
	for i := range sc.Tasks {
		i := i
		t := sc.Tasks[i]
		fns[i] = func() { together[i] = runScript(t.Cfg, t.Cmds, t.Custom) }
	}
	ok := s.Run(fns)
	if !ok {
		res.Violate("sched:abandoned", "scheduler abandoned the run (deadlock=%v capped=%v)", s.Deadlock, s.Capped)
		res.Poisoned = true
		return
	}
	res.Evals += n
	res.FaultN("preempt", s.Switches)
	res.Ticks += int64(s.Points)
	for site, c := range s.Sites {
		switch site {
		case ds.VerifSiteStep:
			res.ProbeN("yield_at_instruction", c)
		case ds.VerifSiteRoll:
			res.ProbeN("yield_at_roll", c)
		case ds.VerifSiteLangSet:
			res.ProbeN("yield_after_language_write", c)
		case ds.VerifSiteFormatErr:
			res.ProbeN("yield_before_language_read", c)
		case ds.VerifSiteSubReturn:
			res.ProbeN("yield_at_sub_vm_return", c)
		}
	}

	// 3. oracles
	var key []string
	for i, t := range sc.Tasks {
		lang := t.Cfg.Lang
		for j := range t.Cmds {
			a, b := alone[i][j], together[i][j]
			if t.Cmds[j].Kind == "lang" {
				lang, _ = strconv.Atoi(t.Cmds[j].Src)
				res.Fault("language_switched_on_used_vm")
				continue
			}
			key = append(key, t.Cmds[j].Src)
			dg.Add("task", fmt.Sprint(i), fmt.Sprint(j), b.Key())
			if b.Err != "" {
				// what a message may quote: the command, the default-sides text, and - when the command reads a
				// restored body that does not parse - the snapshot that holds it
				wording := t.Cmds[j].Src + "\n" + t.Cfg.DefaultSide
				if usesBrokenBody(t.Cmds[j].Src) {
					wording += "\n" + brokenSnapshot
				}
				if ok, why := errorLanguageOKFor(b.Err, lang, wording); !ok {
					res.Violate("lang-leak", "task %d (language %d at this command) got an error text in another language under the schedule: %s\n  src=%q\n  text=%q", i, lang, why, t.Cmds[j].Src, b.Err)
				}
				if sc.Mode == "c19" {
					if usesBrokenBody(t.Cmds[j].Src) {
						res.Probe("syntax_error_inside_restored_body")
						// the position refers to the body's text
						if body, known := brokenBodyText[t.Cmds[j].Src]; known {
							if ok, why := errorGeometryOK(b.Err, body); !ok {
								res.Violate("geometry", "error position inconsistent with the restored body's text: %s\n  src=%q body=%q\n  text=%q", why, t.Cmds[j].Src, body, b.Err)
							}
						}
					} else if ok, why := errorGeometryOK(b.Err, t.Cmds[j].Src); !ok && !(t.Cfg.DefaultSide != "" && func() bool { ok2, _ := errorGeometryOK(b.Err, t.Cfg.DefaultSide); return ok2 }()) {
						// (an error inside the default-sides text is positioned within that text)
						res.Violate("geometry", "error position inconsistent with input: %s\n  src=%q\n  text=%q", why, t.Cmds[j].Src, b.Err)
					}
					if ok, why := errorLanguageOKFor(a.Err, lang, wording); !ok {
						res.Violate("lang-wrong-alone", "task %d (language %d at this command) alone: %s\n  src=%q\n  text=%q", i, lang, why, t.Cmds[j].Src, a.Err)
					}
					res.Probe("rejected_input")
				}
			}
			if sc.Mode == "c19" {
				if a.Err != b.Err && (strings.Contains(a.Err, "Syntax") || strings.Contains(a.Err, "语法错误") || strings.Contains(b.Err, "Syntax") || strings.Contains(b.Err, "语法错误")) {
					res.Violate("lang-mismatch", "task %d: error text differs from the text the same input gives alone\n  src=%q\n  alone=%q\n  together=%q", i, t.Cmds[j].Src, a.Err, b.Err)
				}
				continue
			}
			if !t.Cfg.Seeded {
				// unseeded VMs are nondeterministic by design: never compared, only crash-checked
				if b.Panic != "" && a.Panic == "" {
					res.Probe("unseeded_panic_only_together")
				}
				continue
			}
			if f := DiffOutcome(a, b); f != "" {
				res.Violate("alone-mismatch:"+f, "seeded task %d command %d differs from its isolated run in %s\n  src=%q\n  alone:    %s\n  together: %s", i, j, f, t.Cmds[j].Src, a.Short(), b.Short())
			}
		}
	}
	dg.Add("sched", fmt.Sprint(s.Switches))
	res.Digest = dg.Hex()
	res.Nontrivial = s.Switches >= 2
	res.CaseKey = Mix(HashStr(strings.Join(key, "\x00")), s.SwitchDigest())
	res.State(s.SwitchDigest())
	// keep the executed schedule so that a violation replays and shrinks on the explicit list
	if len(sc.Sched.Explicit) == 0 && len(s.Record) <= 20000 {
		sc.Sched.Explicit = s.Record
		res.AltScenario = MustJSON(&sc)
	}
}

// c11Shrink: drop tasks, drop commands, shrink texts, simplify the schedule.
func c11Shrink(raw json.RawMessage) []json.RawMessage {
	var sc C11Scenario
	if json.Unmarshal(raw, &sc) != nil {
		return nil
	}
	var out []json.RawMessage
	emit := func(f func(s *C11Scenario)) {
		var c C11Scenario
		json.Unmarshal(raw, &c)
		f(&c)
		out = append(out, MustJSON(&c))
	}
	if len(sc.Tasks) > 2 {
		for i := range sc.Tasks {
			i := i
			emit(func(s *C11Scenario) { s.Tasks = append(append([]SchedTaskSpec{}, s.Tasks[:i]...), s.Tasks[i+1:]...) })
		}
	}
	for i, t := range sc.Tasks {
		if len(t.Cmds) > 1 {
			for j := range t.Cmds {
				i, j := i, j
				emit(func(s *C11Scenario) {
					s.Tasks[i].Cmds = append(append([]Cmd{}, s.Tasks[i].Cmds[:j]...), s.Tasks[i].Cmds[j+1:]...)
				})
			}
		}
	}
	for _, st := range []int{2, 1, 0} {
		if sc.Sched.Strategy != st {
			st := st
			emit(func(s *C11Scenario) { s.Sched.Strategy = st })
		}
	}
	for i, t := range sc.Tasks {
		for j, c := range t.Cmds {
			i, j := i, j
			cands := shrinkText(c.Src)
			if len(cands) > 12 {
				cands = cands[:12]
			}
			for _, txt := range cands {
				txt := txt
				emit(func(s *C11Scenario) { s.Tasks[i].Cmds[j].Src = txt })
			}
		}
	}
	return out
}

func init() {
	Register(&Check{
		ID: "C11", Level: "exploration", Race: true, Isolation: 40,
		QuickRuns: 5000, ThoroughRuns: 80000,
		Gen: c11GenMode("c11"), Exec: c11Exec, Shrink: c11Shrink,
		Rule: "in a quarter of the cases the VMs register the byte-identical custom dice pattern (each with a handler of its own) and parse inputs matching it; the tasks of a case share one default-sides text (valid or invalid). One case = 2-4 goroutines, each building its own VM (own flags, error language, seeded or unseeded, a third of them with a parse budget of 3-600 expressions so that parses are abandoned at arbitrary depth) and running 2-5 generated programs, interleaved by the seeded scheduler (uniform / PCT-like / run-to-conflict) at every VM instruction, every die, and around the package-level language write/read, in a -race build whose scheduler hand-off is invisible to the race detector. Oracles: zero race reports with a dicescript frame; every seeded task's outcomes (value, error text, detail, matched/rest, op count, generator state, variables) equal its isolated run; error texts in the task's own language. distinct = distinct (program texts, context-switch sequence); non-trivial = at least 2 context switches",
		Real: []string{"dicescript package under -race with tag verif; goroutines are real"},
		Stub: []string{"goroutine scheduling (decided by the simulator at yield hooks)", "global generators reseeded by the simulator"},
		Assumptions: []string{"preemption only at yield points: VM instruction boundaries, Roll calls, after the language write in Parse, before the language read in the error formatter", "race detection depends on ThreadSanitizer's shadow history; a missed race is a miss, never a false alarm"},
	})
	Register(&Check{
		ID: "C19", Level: "exploration", Race: true, Isolation: 40,
		QuickRuns: 5000, ThoroughRuns: 80000,
		Gen: c11GenMode("c19"), Exec: c11Exec, Shrink: c11Shrink,
		Rule: "a quarter of the tasks first restore variables from a snapshot whose function / computed bodies do not parse and may switch their error language between evaluations (the text must follow the language in force at that command). One case = 2-4 goroutines with error languages 0/1/2 (a third of them with a parse budget of 3-600 expressions: parses abandoned at arbitrary depth) evaluating mostly rejected inputs under the seeded scheduler, with preemption points between the package-level language write (Parse) and its read (error formatter). Oracles: each syntax-error text is purely in its VM's language and equals the text the same input gives alone; line/column/quoted line/caret arithmetic is monitored on the rejected inputs that occur. distinct = distinct (input texts, context-switch sequence); non-trivial = at least 2 context switches",
		Real: []string{"dicescript parser and error formatter under -race with tag verif"},
		Stub: []string{"goroutine scheduling (decided by the simulator at yield hooks)"},
		Assumptions: []string{"line/column/caret arithmetic is only monitored on generated rejected inputs, not claimed as covered for all inputs"},
	})
}
