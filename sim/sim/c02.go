package sim

import (
	"encoding/json"
	"fmt"
	"strings"

	ds "github.com/sealdice/dicescript"
)

// C02 (narrow clause) — an evaluation depends on the VM's past only through variables and the
// generator: "this holds for sequences of evaluations on one VM, including after failed ones".
// History independence: every command of a session on a used VM V (after successes, errors,
// budget aborts and simulator cancellations) must give, on a fresh VM with a deep copy of V's
// variables, the same configuration, the same registered extensions and the same generator
// state, the same outcome and the same variables afterwards.

type C02Scenario struct {
	GlobalSeed uint64
	Cfg        CfgSpec
	Host       HostSpec
	Cmds       []Cmd
	CancelAt   map[int]int64 `json:",omitempty"`
	SmallLimit map[int]int64 `json:",omitempty"` // command index -> OpCountLimit just for that command (budget abort)
}

func c02Gen(seed uint64, tier string) any {
	r := NewRng(seed)
	cfg := GenCfg(r).Tame()
	cfg.Seeded = true
	cfg.OpLimit = 30000
	sc := &C02Scenario{GlobalSeed: r.U64(), Cfg: cfg}
	o := SwarmOpts(r, cfg)
	o.IllTyped = Pick(r, []int{0, 60, 200})
	o.BrokenTail = Pick(r, []int{0, 150, 400})
	o.RandMeth = r.Chance(1, 3)
	o.BigNums = false
	if r.Chance(1, 3) {
		sc.Host = HostSpec{Custom: true, CustomTok: "XX", HandlerPlan: randPlanFaulty(r, 16), StLog: true}
		o.CustomTok = "XX"
	}
	g := NewProgGen(r.Fork(), o)
	n := r.Range(3, 9)
	for i := 0; i < n; i++ {
		src := g.Program(r.Range(0, 3))
		switch r.Intn(12) {
		case 0:
			src = adversarial(r)
		case 1:
			src = "^st" + Pick(r, []string{" 力量60敏捷70", "力量:50 hp+1d4", " &手枪=1d6+2", " 力量+1d("})
		case 2:
			// definitions whose value objects are written to afterwards; executed again from the same code
			src = Pick(r, []string{"&cv.b = 1\n&cv = 11", "&cc = 1; &cc.me = 2; cc", "&cv = 5 + (this.n ?? 0); &cv.n = (cv.n ?? 0) + 1; cv", "func mk() { &loc = 7; &loc.k = 1; return &loc }; mk()",
				"xs = [&(1+1)]; xs[0].w = (xs[0].w ?? 0) + 1; xs[0].w", "d = {'f': &(2)}; d.f.t = 3; d"})
			sc.Cmds = append(sc.Cmds, Cmd{Kind: "parse", Src: src}, Cmd{Kind: "rerun"}, Cmd{Kind: "rerun"})
			continue
		}
		switch r.Intn(10) {
		case 0:
			sc.Cmds = append(sc.Cmds, Cmd{Kind: "parse", Src: src}, Cmd{Kind: "rerun"}, Cmd{Kind: "rerun"})
		case 1, 2:
			sc.Cmds = append(sc.Cmds, Cmd{Kind: "runexpr", Src: src, Local: r.Bool()})
		default:
			sc.Cmds = append(sc.Cmds, Cmd{Kind: "run", Src: src})
		}
	}
	if r.Chance(1, 2) {
		sc.CancelAt = map[int]int64{r.Intn(len(sc.Cmds)): int64(r.Range(1, 80))}
	}
	if r.Chance(1, 2) {
		sc.SmallLimit = map[int]int64{r.Intn(len(sc.Cmds)): int64(r.Range(1, 60))}
	}
	return sc
}

func c02Exec(raw json.RawMessage, res *RunResult) {
	var sc C02Scenario
	if err := json.Unmarshal(raw, &sc); err != nil {
		res.Violate("harness-scenario", "bad scenario: %v", err)
		return
	}
	dg := &Digest{}
	ds.VerifSortedRange = false // Range is sorted by the library itself since the C06 fix; the real loop runs
	m := &Meter{HugeLimit: 4 << 20}
	m.Install()
	defer Uninstall()
	hv := NewHost(sc.Host, m)
	v := sc.Cfg.NewVM()
	hv.Install(v)
	lastParsed := ""
	parsedOK := false
	var key []string
	compared := 0
	for i, c := range sc.Cmds {
		if c.Kind == "rerun" && !parsedOK {
			continue
		}
		// what a fresh VM gets: variables (deep copy, aliasing and code caches preserved), generator, host state
		varsCopy := ds.VerifDeepCopyMap(v.Attrs)
		gen, _ := v.GetCurSeed()
		planPos := hv.handlerN
		limit := sc.Cfg.OpLimit
		if l, ok := sc.SmallLimit[i]; ok {
			limit = l
			res.Fault("budget_abort")
		}
		budget := int64(300_000)
		if at, ok := sc.CancelAt[i]; ok {
			budget = at
			res.Fault("cancel")
		}
		run := func(vm *ds.Context) *Outcome {
			// one host serves both VMs: compiled code embeds the handler it was compiled with, and a deep
			// copy of the variables shares that code, so the handler's behaviour plan must be positioned
			// identically before each of the two runs
			hv.handlerN = planPos
			ResetGlobals(sc.GlobalSeed ^ uint64(i))
			vm.Config.OpCountLimit = ds.IntType(limit)
			m.Reset()
			m.Budget = budget
			return DoCmd(vm, c)
		}
		a := run(v)
		aAttrs := a.Attrs
		res.Evals++
		res.Ticks += m.Ticks
		cancelledA := m.Cancelled
		if m.Huge != "" || strings.HasPrefix(a.Attrs, "<huge") {
			break // resource trouble is another property's subject; the state is not comparable any more
		}
		planAfter := hv.handlerN
		// the fresh twin
		f := sc.Cfg.NewVMFromSeed(gen)
		f.Attrs = varsCopy
		hv.Install(f)
		if c.Kind == "rerun" {
			ResetGlobals(sc.GlobalSeed ^ uint64(i))
			m.Reset()
			m.Budget = 300_000
			f.Config.OpCountLimit = 0
			pre := DoCmd(f, Cmd{Kind: "parse", Src: lastParsed})
			if pre.Err != "" || pre.Panic != "" {
				continue
			}
		}
		b := run(f)
		if hv.handlerN != planAfter {
			res.Probe("handler_call_count_differs")
		}
		hv.handlerN = planAfter
		res.Evals++
		res.Ticks += m.Ticks
		dg.Add("cmd", c.Kind, c.Src, a.Key())
		key = append(key, c.Src)
		switch c.Kind {
		case "run", "parse":
			lastParsed = c.Src
			parsedOK = a.Parsed && a.Panic == ""
		}
		if cancelledA != m.Cancelled {
			res.Violate("history-dependence:cancel-point", "command %d was cancelled by the clock on one VM only (used VM: %v, fresh VM: %v)\n  src=%q", i, cancelledA, m.Cancelled, c.Src)
			break
		}
		compared++
		if a.Err != "" || a.Panic != "" {
			res.Probe("compared_after_failure")
		}
		if fld := DiffOutcome(a, b); fld != "" {
			prev := "-"
			if i > 0 {
				prev = fmt.Sprintf("%s %q", sc.Cmds[i-1].Kind, trunc(sc.Cmds[i-1].Src, 160))
			}
			res.Violate("history-dependence:"+fld, "command %d (%s) gives a different %s on the used VM than on a fresh VM with the same variables, configuration, extensions and generator state\n  src=%q\n  previous command: %s\n  used VM:  %s\n  fresh VM: %s", i, c.Kind, fld, c.Src, prev, a.Short(), b.Short())
			break
		}
		_ = aAttrs
	}
	res.ProbeN("commands_compared", compared)
	res.Digest = dg.Hex()
	res.Nontrivial = compared >= 3
	res.CaseKey = HashStr(strings.Join(key, "\x00"))
}

func c02Shrink(raw json.RawMessage) []json.RawMessage {
	var sc C02Scenario
	if json.Unmarshal(raw, &sc) != nil {
		return nil
	}
	var out []json.RawMessage
	emit := func(f func(s *C02Scenario)) {
		var c C02Scenario
		json.Unmarshal(raw, &c)
		f(&c)
		out = append(out, MustJSON(&c))
	}
	n := len(sc.Cmds)
	for i := 0; i < n; i++ {
		i := i
		emit(func(s *C02Scenario) {
			s.Cmds = append(append([]Cmd{}, s.Cmds[:i]...), s.Cmds[i+1:]...)
			s.CancelAt, s.SmallLimit = nil, nil
		})
	}
	if sc.CancelAt != nil {
		emit(func(s *C02Scenario) { s.CancelAt = nil })
	}
	if sc.SmallLimit != nil {
		emit(func(s *C02Scenario) { s.SmallLimit = nil })
	}
	if (sc.Host != HostSpec{}) {
		emit(func(s *C02Scenario) { s.Host = HostSpec{} })
	}
	for i, c := range sc.Cmds {
		i := i
		if c.Kind != "run" && c.Kind != "rerun" {
			emit(func(s *C02Scenario) { s.Cmds[i].Kind = "run" })
		}
		cands := shrinkText(c.Src)
		if len(cands) > 14 {
			cands = cands[:14]
		}
		for _, t := range cands {
			t := t
			emit(func(s *C02Scenario) { s.Cmds[i].Src = t })
		}
	}
	return out
}

func init() {
	Register(&Check{
		ID: "C02", Level: "exploration", Isolation: 30,
		QuickRuns: 20000, ThoroughRuns: 400000,
		Gen: c02Gen, Exec: c02Exec, Shrink: c02Shrink,
		Rule: "one case = one session of 3-9 commands (Run, Parse + RunAfterParsed x2, RunExpr; generated, ill-typed, broken and adversarial programs; per-command budget aborts and simulator cancellation at a chosen tick) on one long-lived VM; before EVERY command the VM's variables are deep-copied (aliasing and compiled-code caches preserved) and its generator bytes captured, and the command is also run on a fresh VM given exactly that; outcomes (value, error, detail, matched/rest, op count, generator bytes, variables afterwards, cancellation point) must be identical. distinct = distinct command-text sequences; non-trivial = at least 3 commands compared",
		Real: []string{"dicescript Context lifecycle (Parse/Run/RunAfterParsed/RunExpr), VM, values"},
		Stub: []string{"host callbacks (custom dice handler with a behaviour plan, st log)", "package-level generators reset before each command on both VMs"},
		Assumptions: []string{"decides only the history clause of C02; whether a single evaluation computes the right value needs an independent reference interpreter (differential testing), which is outside this technique and not claimed"},
	})
}
