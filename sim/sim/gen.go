package sim

import (
	"fmt"
	"strconv"
	"strings"
)

// GenOpts are the per-run (swarm) knobs of the program generator.
type GenOpts struct {
	Dice      bool // dice terms allowed
	Cfg       CfgSpec
	Stmts     bool // if/while/func allowed (off when the config disables statements)
	Funcs     bool
	Computed  bool
	Containers bool
	Strings   bool
	Floats    bool
	Methods   bool
	Macros    bool
	RandMeth  bool // shuffle/rand/randSize
	CustomTok string // reserved custom-dice token inserted at operand positions ("" = none)
	IllTyped  int  // per-mille: operand of the wrong type
	BrokenTail int // per-mille: program cut or unbalanced
	Noise     int  // per-mille: random byte noise per program
	MaxDepth  int
	WideOps   bool // full-width operators
	Newlines  bool // newline separators
	BigNums   bool
	DictMulti bool // allow dicts with more than one key (their rendering order is a seam)
	RichText  bool // dict keys and string bodies with backslashes, quotes, control characters, non-BMP runes
	EdgeFloats bool // negative zero, subnormals, values beyond the integer range, shortest-form corner cases
}

func SwarmOpts(r *Rng, cfg CfgSpec) GenOpts {
	o := GenOpts{Cfg: cfg}
	o.Dice = r.Chance(5, 6)
	o.Stmts = !cfg.NoStmts && r.Chance(5, 6)
	o.Funcs = o.Stmts && r.Chance(2, 3)
	o.Computed = r.Chance(2, 3)
	o.Containers = r.Chance(3, 4)
	o.Strings = r.Chance(3, 4)
	o.Floats = r.Chance(1, 2)
	o.Methods = r.Chance(2, 3)
	o.Macros = r.Chance(1, 5)
	o.MaxDepth = r.Range(1, 4)
	o.WideOps = r.Chance(1, 6)
	o.Newlines = r.Chance(1, 3)
	o.BigNums = r.Chance(1, 8)
	o.DictMulti = true
	o.RichText = r.Chance(1, 2)
	return o
}

type fnInfo struct {
	name  string
	arity int
}

// ProgGen generates statement lists and remembers which variables exist with which type.
type ProgGen struct {
	r     *Rng
	o     GenOpts
	ints  []string
	strs  []string
	arrs  []string
	dicts []string
	comps []string
	fns   []fnInfo
	depth int
	inLoop int
	inFunc int
	params []string
}

func NewProgGen(r *Rng, o GenOpts) *ProgGen { return &ProgGen{r: r, o: o} }

var intNames = []string{"x", "y", "z", "n", "w", "hp", "v1", "力量", "敏捷", "$t", "_u", "计数"}
var strNames = []string{"s", "name", "t1", "名字"}
var arrNames = []string{"lst", "xs", "列表"}
var dictNames = []string{"obj", "tbl", "角色"}
var compNames = []string{"cv", "手枪", "gg"}
var fnNames = []string{"ff", "gcd", "计算", "hh"}
var dictKeys = []string{"k", "hp", "名", "v", "k2"}

// richKeys are dict keys / string bodies, written as they appear inside a single-quoted literal,
// that stress escaping on every path a string takes (printing, JSON, keys of variable maps).
var richKeys = []string{`a\\b`, `C:\\dir`, `a\\tb`, `tail\\`, `q\"uote`, `it\'s`, `sp ace`, ``, `tab\there`, `nl\nline`, `<x>&y`, `é`, `🎲`, `k:colon`, `1`, `1.5`, `-3`, `__proto__`, `a/b`, `{brace}`, `[0]`, `\\u0041`, `null`, `ke\\\\y`}

func addUniq(xs []string, s string) []string {
	for _, x := range xs {
		if x == s {
			return xs
		}
	}
	return append(xs, s)
}

func (g *ProgGen) op(ascii, wide string) string {
	if g.o.WideOps && wide != "" && g.r.Chance(1, 2) {
		return wide
	}
	return ascii
}

func (g *ProgGen) sp() string {
	switch g.r.Intn(6) {
	case 0:
		return " "
	case 1:
		return "  "
	default:
		return ""
	}
}

func (g *ProgGen) lit() string {
	if g.o.BigNums && g.r.Chance(1, 6) {
		return Pick(g.r, []string{"2147483647", "4294967296", "9223372036854775807", "100000", "65536", "99999999999"})
	}
	switch g.r.Intn(10) {
	case 0:
		return "0"
	case 1:
		return "1"
	case 2:
		return strconv.Itoa(g.r.Range(10, 120))
	default:
		return strconv.Itoa(g.r.Range(1, 12))
	}
}

// wrongType returns an operand of a type the context does not expect.
func (g *ProgGen) wrongType() string {
	switch g.r.Intn(8) {
	case 0:
		return "'str'"
	case 1:
		return "1.5"
	case 2:
		return "null"
	case 3:
		return "[1,2]"
	case 4:
		return "{'k':1}"
	case 5:
		return "undefinedVar"
	case 6:
		return "(-3)"
	default:
		return "abs"
	}
}

// Int returns an expression that evaluates to an int in a well-typed program.
func (g *ProgGen) Int() string {
	if g.o.IllTyped > 0 && g.r.Chance(g.o.IllTyped, 1000) {
		return g.wrongType()
	}
	g.depth++
	defer func() { g.depth-- }()
	if g.depth > g.o.MaxDepth {
		return g.intLeaf()
	}
	switch g.r.Intn(22) {
	case 0, 1, 2:
		return g.intLeaf()
	case 3, 4:
		return g.Int() + g.sp() + g.op("+", "＋") + g.sp() + g.Int()
	case 5:
		return g.Int() + g.sp() + g.op("-", "－") + g.sp() + g.Int()
	case 6:
		return g.Int() + g.sp() + g.op("*", "＊") + g.sp() + g.Int()
	case 7:
		return g.Int() + g.sp() + g.op("/", "／") + g.sp() + g.nonZero()
	case 8:
		return g.Int() + " % " + g.nonZero()
	case 9:
		return "(" + g.sp() + g.Int() + g.sp() + ")"
	case 10:
		return g.Int() + " " + Pick(g.r, []string{"<", "<=", "==", "!=", ">=", ">"}) + " " + g.Int()
	case 11:
		return g.Int() + Pick(g.r, []string{" && ", " || "}) + g.Int()
	case 12:
		if g.r.Chance(1, 3) {
			// decision table, possibly nested in its last alternative, possibly ending in a catch-all
			inner := g.Int() + " ? " + g.Int() + ", " + Pick(g.r, []string{"1", "true", g.Int()}) + " ? " + g.Int()
			if g.r.Bool() {
				return "(" + g.Int() + " ? " + g.Int() + ", " + g.Int() + " ? (" + inner + "))"
			}
			return "(" + inner + ")"
		}
		return g.Int() + " ? " + g.Int() + " : " + g.Int()
	case 13:
		return "-" + g.intLeaf()
	case 14:
		if g.o.Dice {
			return g.DiceTerm()
		}
		return g.intLeaf()
	case 15:
		if g.o.Dice {
			return g.DiceTerm()
		}
		return g.lit() + " ^ " + strconv.Itoa(g.r.Range(0, 3))
	case 16:
		if len(g.fns) > 0 {
			f := Pick(g.r, g.fns)
			var args []string
			for i := 0; i < f.arity; i++ {
				args = append(args, g.Int())
			}
			return f.name + "(" + strings.Join(args, ", ") + ")"
		}
		return g.intLeaf()
	case 17:
		if g.o.Containers && len(g.arrs) > 0 {
			a := Pick(g.r, g.arrs)
			switch g.r.Intn(4) {
			case 0:
				return a + ".len()"
			case 1:
				return a + ".sum()"
			case 2:
				return a + "[0]"
			default:
				return a + ".kh(" + strconv.Itoa(g.r.Range(1, 2)) + ")"
			}
		}
		return "[" + g.Int() + ", " + g.Int() + "]" + Pick(g.r, []string{"kh", "kl", ".sum()", ".len()", "[1]", "[-1]"})
	case 18:
		if g.o.Containers && len(g.dicts) > 0 {
			d := Pick(g.r, g.dicts)
			if g.r.Bool() {
				return "(" + d + "." + Pick(g.r, dictKeys) + " ?? 0)"
			}
			return "(" + d + "['" + Pick(g.r, dictKeys) + "'] ?? 1)"
		}
		return g.intLeaf()
	case 19:
		switch g.r.Intn(5) {
		case 0:
			return "abs(" + g.Int() + ")"
		case 1:
			return "toInt('" + strconv.Itoa(g.r.Range(0, 99)) + "')"
		case 2:
			if g.o.Floats {
				return Pick(g.r, []string{"floor", "ceil", "round"}) + "(" + g.Int() + " / 2.0)"
			}
			return "abs(" + g.Int() + ")"
		case 3:
			return "toBool(" + g.Int() + ")"
		default:
			return "typeId(" + g.Int() + ")"
		}
	case 20:
		if len(g.comps) > 0 && g.o.Computed {
			return Pick(g.r, g.comps)
		}
		return "(未定义 ?? " + g.lit() + ")"
	default:
		if !g.o.Cfg.NoBitwise {
			return g.intLeaf() + Pick(g.r, []string{" & ", " | "}) + g.intLeaf()
		}
		return g.intLeaf()
	}
}

func (g *ProgGen) nonZero() string {
	if g.r.Chance(1, 12) {
		return g.Int()
	}
	return strconv.Itoa(g.r.Range(1, 9))
}

func (g *ProgGen) intLeaf() string {
	if g.o.CustomTok != "" && g.r.Chance(1, 5) {
		return g.o.CustomTok + strconv.Itoa(g.r.Range(1, 9))
	}
	if len(g.params) > 0 && g.r.Chance(1, 2) {
		return Pick(g.r, g.params)
	}
	if len(g.ints) > 0 && g.r.Chance(1, 2) {
		return Pick(g.r, g.ints)
	}
	return g.lit()
}

// DiceTerm returns one dice term legal under the run's configuration.
func (g *ProgGen) DiceTerm() string {
	c := g.o.Cfg
	cnt := func() string { return strconv.Itoa(g.r.Range(1, 6)) }
	sides := func() string { return Pick(g.r, []string{"2", "3", "4", "6", "8", "10", "12", "20", "100", "1", "7"}) }
	mod := func() string {
		switch g.r.Intn(12) {
		case 0:
			return "k" + strconv.Itoa(g.r.Range(1, 3))
		case 1:
			return "kh" + strconv.Itoa(g.r.Range(1, 3))
		case 2:
			return "kl" + strconv.Itoa(g.r.Range(1, 3))
		case 3:
			return "q" + strconv.Itoa(g.r.Range(1, 3))
		case 4:
			return "dh" + strconv.Itoa(g.r.Range(1, 2))
		case 5:
			return "dl" + strconv.Itoa(g.r.Range(1, 2))
		case 6:
			return "k"
		default:
			return ""
		}
	}
	mod2 := func() string {
		switch g.r.Intn(10) {
		case 0:
			return "min" + strconv.Itoa(g.r.Range(1, 4))
		case 1:
			return "max" + strconv.Itoa(g.r.Range(2, 8))
		default:
			return ""
		}
	}
	for tries := 0; tries < 8; tries++ {
		switch g.r.Intn(14) {
		case 0, 1, 2, 3:
			return cnt() + Pick(g.r, []string{"d", "D"}) + sides() + mod() + mod2()
		case 4:
			return "d" + sides() + mod2()
		case 5:
			if !c.NoND {
				return cnt() + "d" + mod()
			}
		case 6:
			if !c.NoND {
				return "d" + Pick(g.r, []string{"", "优势", "劣势"})
			}
		case 7:
			return "d" + sides() + Pick(g.r, []string{"优势", "劣势"})
		case 8:
			if c.CoC {
				return Pick(g.r, []string{"b", "p", "B", "P"}) + Pick(g.r, []string{"", "1", "2", "3"})
			}
		case 9:
			if c.Fate {
				return "f"
			}
		case 10:
			if c.WoD {
				s := cnt() + "a" + strconv.Itoa(g.r.Range(6, 11))
				if g.r.Bool() {
					s += "m" + Pick(g.r, []string{"10", "6", "8"})
				}
				if g.r.Bool() {
					s += Pick(g.r, []string{"k", "q"}) + strconv.Itoa(g.r.Range(2, 9))
				}
				return s
			}
		case 11:
			if c.DC {
				s := cnt() + "c" + strconv.Itoa(g.r.Range(5, 11))
				if g.r.Bool() {
					s += "m" + Pick(g.r, []string{"10", "6", "12"})
				}
				return s
			}
		case 12:
			if g.r.Chance(1, 3) {
				// the count chosen by a conditional whose branches end in literals
				return "(" + g.intLeaf() + " ? " + strconv.Itoa(g.r.Range(1, 3)) + " : " + strconv.Itoa(g.r.Range(1, 3)) + ")d" + sides()
			}
			return "(" + g.Int() + ")d" + sides()
		case 13:
			return cnt() + "d(" + g.lit() + ")"
		}
	}
	return "2d6"
}

var edgeFloats = []string{"-0.0", "(0.0 * -1)", "(0.1 + 0.2)", "(1.0 / 3)", "(2.0 ^ 70)", "(2.0 ^ 63)", "(-(2.0 ^ 63))", "(2.0 ^ 53 + 1)", "(2.0 ^ -1074)", "(2.0 ^ 1023 * 1.9)", "(1.0 / 3000000)", "123456789012345678.0", "(-0.4 * 0)", "100000000000000000000.0", "0.000001", "0.0000001"}

func (g *ProgGen) Float() string {
	if g.o.EdgeFloats && g.r.Chance(1, 4) {
		return Pick(g.r, edgeFloats)
	}
	switch g.r.Intn(4) {
	case 0:
		return Pick(g.r, []string{"1.5", "0.25", "2.0", ".5", "3.75"})
	case 1:
		return g.Int() + " / 2.0"
	case 2:
		return "toFloat(" + g.Int() + ")"
	default:
		return g.Int() + " * 1.5"
	}
}

var strBodies = []string{"abc", "力量", "a b", "x-y", "", "Q", "测试 文本", "1d6", "hello"}

func (g *ProgGen) Str() string {
	if g.o.IllTyped > 0 && g.r.Chance(g.o.IllTyped, 1000) {
		return g.wrongType()
	}
	g.depth++
	defer func() { g.depth-- }()
	if g.depth > g.o.MaxDepth+1 {
		return "'" + Pick(g.r, strBodies) + "'"
	}
	if g.o.RichText && g.r.Chance(1, 4) {
		return "'" + Pick(g.r, richKeys) + "'"
	}
	switch g.r.Intn(10) {
	case 0, 1:
		return "'" + Pick(g.r, strBodies) + "'"
	case 2:
		return "\"" + Pick(g.r, strBodies) + "\""
	case 3:
		return "`" + Pick(g.r, strBodies) + "{" + g.sp() + g.Int() + g.sp() + "}" + Pick(g.r, []string{"", " 点", "!"}) + "`"
	case 4:
		return "\x1e" + Pick(g.r, strBodies) + "{" + g.Int() + "}\x1e"
	case 5:
		return g.Str() + " + " + g.Str()
	case 6:
		return "toStr(" + g.Int() + ")"
	case 7:
		if len(g.strs) > 0 {
			return Pick(g.r, g.strs)
		}
		return "repr(" + g.Int() + ")"
	case 8:
		if g.o.Stmts {
			return "`" + Pick(g.r, strBodies) + "{% " + g.simpleStmt() + " %}" + "{" + g.Int() + "}`"
		}
		return "'" + Pick(g.r, strBodies) + "'"
	default:
		return "'" + Pick(g.r, strBodies) + "'[" + strconv.Itoa(g.r.Range(0, 2)) + ":" + strconv.Itoa(g.r.Range(1, 4)) + "]"
	}
}

func (g *ProgGen) Arr() string {
	g.depth++
	defer func() { g.depth-- }()
	if g.depth > g.o.MaxDepth+1 {
		return "[" + g.lit() + "]"
	}
	switch g.r.Intn(8) {
	case 0, 1, 2:
		n := g.r.Range(0, 4)
		var el []string
		for i := 0; i < n; i++ {
			el = append(el, g.Int())
		}
		return "[" + strings.Join(el, ","+g.sp()) + "]"
	case 3:
		return "[" + strconv.Itoa(g.r.Range(0, 4)) + ".." + strconv.Itoa(g.r.Range(0, 6)) + "]"
	case 4:
		if len(g.arrs) > 0 {
			return Pick(g.r, g.arrs)
		}
		return "[1,2,3]"
	case 5:
		return g.Arr() + " + " + g.Arr()
	case 6:
		return g.Arr() + " * " + strconv.Itoa(g.r.Range(0, 3))
	default:
		if len(g.arrs) > 0 {
			return Pick(g.r, g.arrs) + "[" + strconv.Itoa(g.r.Range(0, 1)) + ":" + strconv.Itoa(g.r.Range(1, 3)) + "]"
		}
		return "[[1,2],[3]]"
	}
}

func (g *ProgGen) Dict() string {
	n := g.r.Range(0, 3)
	if !g.o.DictMulti && n > 1 {
		n = 1
	}
	var el []string
	used := map[string]bool{}
	for i := 0; i < n; i++ {
		k := Pick(g.r, dictKeys)
		if g.o.RichText && g.r.Chance(1, 3) {
			k = Pick(g.r, richKeys)
		}
		if used[k] {
			continue
		}
		used[k] = true
		el = append(el, "'"+k+"': "+g.Int())
	}
	return "{" + strings.Join(el, ", ") + "}"
}

func (g *ProgGen) Any() string {
	switch g.r.Intn(8) {
	case 0:
		if g.o.Strings {
			return g.Str()
		}
	case 1:
		if g.o.Containers {
			return g.Arr()
		}
	case 2:
		if g.o.Containers {
			return g.Dict()
		}
	case 3:
		if g.o.Floats {
			return g.Float()
		}
	}
	return g.Int()
}

func (g *ProgGen) simpleStmt() string {
	name := Pick(g.r, intNames)
	g.ints = addUniq(g.ints, name)
	return name + g.sp() + "=" + g.sp() + g.Int()
}

// Stmt returns one statement and whether it ends in a block (no separator needed after it).
func (g *ProgGen) Stmt() (string, bool) {
	g.depth++
	defer func() { g.depth-- }()
	for tries := 0; tries < 10; tries++ {
		switch g.r.Intn(26) {
		case 0, 1, 2, 3:
			return g.simpleStmt(), false
		case 4, 5:
			return g.Int(), false
		case 6:
			if g.o.Strings {
				n := Pick(g.r, strNames)
				s := n + " = " + g.Str()
				g.strs = addUniq(g.strs, n)
				return s, false
			}
		case 7:
			if g.o.Containers {
				n := Pick(g.r, arrNames)
				s := n + " = " + g.Arr()
				g.arrs = addUniq(g.arrs, n)
				return s, false
			}
		case 8:
			if g.o.Containers {
				n := Pick(g.r, dictNames)
				s := n + " = " + g.Dict()
				g.dicts = addUniq(g.dicts, n)
				return s, false
			}
		case 9:
			if g.o.Containers && len(g.arrs) > 0 {
				a := Pick(g.r, g.arrs)
				switch g.r.Intn(5) {
				case 0:
					return a + "[0] = " + g.Int(), false
				case 1:
					if g.o.Methods {
						if g.r.Chance(1, 3) {
							// arrays with spare capacity, then two concatenations of the same operand
							n1, n2 := Pick(g.r, []string{"cat1", "lst"}), Pick(g.r, []string{"cat2", "xs"})
							g.arrs = addUniq(addUniq(g.arrs, n1), n2)
							return a + ".push(" + g.lit() + "); " + n1 + " = " + a + " + [" + g.lit() + "]; " + n2 + " = " + a + " + [" + g.lit() + ", " + g.lit() + "]; " + n1, false
						}
						return a + ".push(" + g.Int() + ")", false
					}
				case 2:
					if g.o.Methods {
						return a + "." + Pick(g.r, []string{"pop", "shift"}) + "()", false
					}
				case 3:
					if g.r.Chance(1, 3) {
						// a name rebound to a fresh container that equals the old one, while an alias of the old one
						// is still around: afterwards only the new one may change
						return "alias1 = " + a + "; " + a + " = " + a + " + []; " + a + "[0] = " + g.lit() + "; alias1", false
					}
					return a + "[" + strconv.Itoa(g.r.Range(0, 1)) + ":" + strconv.Itoa(g.r.Range(1, 2)) + "] = " + g.Arr(), false
				default:
					if g.o.RandMeth {
						return a + "." + Pick(g.r, []string{"shuffle()", "rand()", "randSize(1)"}), false
					}
				}
			}
		case 10:
			if g.o.Containers && len(g.dicts) > 0 {
				d := Pick(g.r, g.dicts)
				switch g.r.Intn(4) {
				case 0:
					if g.o.RichText && g.r.Chance(1, 6) {
						// prototype links between the dicts of the program (possibly looping)
						return d + ".__proto__ = " + Pick(g.r, g.dicts) + "; " + d + "." + Pick(g.r, []string{"nope", "k", "zz + 1", "len()"}), false
					}
					return d + "." + Pick(g.r, dictKeys) + " = " + g.Int(), false
				case 1:
					if g.o.RichText && g.r.Bool() {
						return d + "['" + Pick(g.r, richKeys) + "'] = " + g.Any(), false
					}
					return d + "['" + Pick(g.r, dictKeys) + "'] = " + g.Any(), false
				case 2:
					if g.o.Methods {
						return d + "." + Pick(g.r, []string{"len()", "keys().len()", "values().len()", "items().len()"}), false
					}
				default:
					return d, false
				}
			}
		case 11, 12:
			if g.o.Stmts && g.depth <= g.o.MaxDepth {
				s := "if " + g.Int() + " {" + g.sp() + g.Block(g.r.Range(0, 2)) + g.sp() + "}"
				if g.r.Bool() {
					if g.r.Chance(1, 3) {
						s += " else if " + g.Int() + " { " + g.Block(1) + " }"
					}
					s += " else {" + g.sp() + g.Block(g.r.Range(0, 2)) + "}"
				}
				return s, true
			}
		case 13, 14:
			if g.o.Stmts && g.depth <= g.o.MaxDepth && g.inLoop < 2 {
				iv := Pick(g.r, []string{"i", "j", "idx"})
				if g.inLoop > 0 {
					iv = "jj"
				}
				lim := g.r.Range(0, 4)
				g.inLoop++
				body := g.Block(g.r.Range(0, 2))
				extra := ""
				if g.r.Chance(1, 3) {
					extra = "if " + iv + " == " + strconv.Itoa(g.r.Range(0, 3)) + " { " + iv + " = " + iv + " + 1; " + Pick(g.r, []string{"break", "continue"}) + " }; "
				}
				g.inLoop--
				sep := "; "
				if body == "" {
					sep = ""
				}
				return iv + " = 0; while " + iv + " < " + strconv.Itoa(lim) + " { " + extra + body + sep + iv + " = " + iv + " + 1 }", true
			}
		case 15:
			if g.o.Funcs && g.depth <= 2 && g.inFunc == 0 {
				name := Pick(g.r, fnNames)
				ar := g.r.Range(0, 2)
				ps := []string{"p", "q2", "r"}[:ar]
				saveInts, saveParams := g.ints, g.params
				g.params = ps
				g.inFunc++
				body := g.Block(g.r.Range(0, 2))
				ret := g.Int()
				g.inFunc--
				g.ints, g.params = saveInts, saveParams
				sep := "; "
				if body == "" {
					sep = ""
				}
				tail := "return " + ret
				if g.r.Chance(1, 4) {
					tail = ret
				}
				s := "func " + name + "(" + strings.Join(ps, ", ") + ") { " + body + sep + tail + " }"
				// replace an older definition of the same name
				var fns []fnInfo
				for _, f := range g.fns {
					if f.name != name {
						fns = append(fns, f)
					}
				}
				g.fns = append(fns, fnInfo{name, ar})
				return s, true
			}
		case 16:
			if g.o.Computed && g.inFunc == 0 {
				name := Pick(g.r, compNames)
				// a computed value must not refer to itself
				save := g.comps
				var others []string
				for _, c := range g.comps {
					if c != name {
						others = append(others, c)
					}
				}
				g.comps = nil
				e := g.Int()
				if g.r.Chance(1, 3) {
					e += " + (this.bonus ?? 0)"
				}
				g.comps = others
				_ = save
				g.comps = addUniq(g.comps, name)
				return "&" + name + " = " + e, false
			}
		case 17:
			if g.o.Computed && len(g.comps) > 0 && g.inFunc == 0 {
				c := Pick(g.r, g.comps)
				switch g.r.Intn(4) {
				case 0:
					// the computed value itself (not its result) stored elsewhere: the same value reachable twice
					n := Pick(g.r, []string{"cur", "alias1"})
					return n + " = &" + c, false
				case 1:
					if g.o.Containers {
						n := Pick(g.r, arrNames)
						g.arrs = addUniq(g.arrs, n)
						return n + " = [&" + c + ", &" + c + ", 1]", false
					}
				}
				if g.r.Chance(1, 4) {
					// the same definition text executed again after an attribute was set on the first value
					return "&rd = (this.x ?? 0) + 1; &rd.x = 5; &rd = (this.x ?? 0) + 1; rd", false
				}
				if g.r.Chance(1, 3) {
					// a computed value whose body yields another computed value, unevaluated
					return Pick(g.r, []string{"&ind1 = &" + c + "; ind1", "hold = [&" + c + "]; &ind2 = hold[0]; ind2", "&ind1 = &" + c + "; x = ind1; `{ind1}`", "&ind1 = &" + c + "; ind1 + 1"}), false
				}
				return "&" + c + ".bonus = " + g.lit(), false
			}
		case 18:
			if g.o.Macros {
				return "// #EnableDice " + Pick(g.r, []string{"wod", "coc", "fate", "doublecross"}) + " " + Pick(g.r, []string{"true", "false"}) + "\n", true
			}
		case 19:
			return "// " + Pick(g.r, strBodies) + "\n", true
		case 20:
			if g.o.Strings {
				return g.Str(), false
			}
		case 21:
			if g.o.Floats {
				n := Pick(g.r, intNames)
				g.ints = addUniq(g.ints, n)
				return n + " = " + g.Float(), false
			}
		case 22:
			if len(g.ints) > 0 {
				n := Pick(g.r, g.ints)
				return n + " = " + n + " + " + g.Int(), false
			}
		case 23:
			if g.o.Containers {
				return g.Arr(), false
			}
		case 24:
			return g.Int() + " ? " + g.Any() + ", " + g.Int() + " ? " + g.Any(), false
		case 25:
			if g.inFunc > 0 && g.r.Chance(1, 3) {
				return "return " + g.Int(), true
			}
		}
	}
	return g.simpleStmt(), false
}

// Block returns n statements joined for use inside braces.
func (g *ProgGen) Block(n int) string {
	var sb strings.Builder
	for i := 0; i < n; i++ {
		s, blk := g.Stmt()
		sb.WriteString(s)
		if i < n-1 {
			if blk && !strings.HasSuffix(s, "\n") {
				sb.WriteString(" ")
			} else if !strings.HasSuffix(s, "\n") {
				sb.WriteString("; ")
			}
		}
	}
	return strings.TrimRight(sb.String(), " ")
}

// Stmts returns n top-level statements, each carrying its own separator, so that a host can
// stop (snapshot, crash) between any two of them.
func (g *ProgGen) Stmts(n int) []string {
	var out []string
	for i := 0; i < n; i++ {
		s, blk := g.Stmt()
		switch {
		case strings.HasSuffix(s, "\n"):
		case blk:
			s += Pick(g.r, []string{" ", "; ", "\n"})
		case g.o.Newlines && g.r.Bool():
			s += "\n"
		default:
			s += Pick(g.r, []string{"; ", ";", " ;\n"})
		}
		out = append(out, s)
	}
	return out
}

// Program returns a program of n statements ending in an expression more often than not.
func (g *ProgGen) Program(n int) string {
	ss := g.Stmts(n)
	p := strings.Join(ss, "")
	if g.r.Chance(2, 3) {
		p += g.Any()
	}
	return g.damage(p)
}

var noiseBytes = []string{"(", ")", "[", "]", "{", "}", "'", "\"", "`", "\x1e", "\\", "d", "a", "c", "f", "b", "p", "k", "q", "m", ".", ",", ":", ";", "=", "&", "|", "?", "%", "^", "*", "#", "\n", "\r", "\t", " ", "0", "9", "优", "势", "（", "）", "\x00", "\xff", "\xc3", "－", "＝"}

func (g *ProgGen) damage(p string) string {
	if g.o.BrokenTail > 0 && g.r.Chance(g.o.BrokenTail, 1000) && len(p) > 0 {
		switch g.r.Intn(3) {
		case 0:
			p = p[:g.r.Intn(len(p))]
		case 1:
			p += Pick(g.r, []string{"(", "[", "{", "'", "`", "{'a':1", "[1,", "ff(", " +", " d", "`{", "`{%", "if ", "while 1 {", "func x(", "&v = ", "a(1+1+23=3", ".", "[1:"})
		default:
			i := g.r.Intn(len(p))
			p = p[:i] + Pick(g.r, noiseBytes) + p[i:]
		}
	}
	if g.o.Noise > 0 && g.r.Chance(g.o.Noise, 1000) && len(p) > 0 {
		k := g.r.Range(1, 3)
		for j := 0; j < k; j++ {
			i := g.r.Intn(len(p))
			switch g.r.Intn(3) {
			case 0:
				p = p[:i] + Pick(g.r, noiseBytes) + p[i:]
			case 1:
				p = p[:i] + Pick(g.r, noiseBytes) + p[i+1:]
			default:
				p = p[:i] + p[i+1:]
			}
			if len(p) == 0 {
				break
			}
		}
	}
	return p
}

// Snapshot of the generator's knowledge, for messages.
func (g *ProgGen) String() string {
	return fmt.Sprintf("ints=%v strs=%v arrs=%v dicts=%v comps=%v fns=%v", g.ints, g.strs, g.arrs, g.dicts, g.comps, g.fns)
}

// ---------------------------------------------------------------- generic shrink helpers

// shrinkText proposes smaller versions of a program text: halves, statement removal, token removal.
func shrinkText(s string) []string {
	var out []string
	if s == "" {
		return nil
	}
	add := func(c string) {
		if c != s {
			out = append(out, c)
		}
	}
	// split at statement separators
	parts := splitKeep(s, ";\n")
	if len(parts) > 1 {
		for i := range parts {
			add(strings.Join(append(append([]string{}, parts[:i]...), parts[i+1:]...), ""))
		}
	}
	n := len(s)
	if n > 8 {
		add(s[:n/2])
		add(s[n/2:])
	}
	// remove chunks
	for _, sz := range []int{n / 4, n / 8, 4, 2, 1} {
		if sz < 1 {
			continue
		}
		lim := 0
		for i := 0; i+sz <= n && lim < 40; i += sz {
			add(s[:i] + s[i+sz:])
			lim++
		}
	}
	return out
}

func splitKeep(s, seps string) []string {
	var parts []string
	last := 0
	for i := 0; i < len(s); i++ {
		if strings.IndexByte(seps, s[i]) >= 0 {
			parts = append(parts, s[last:i+1])
			last = i + 1
		}
	}
	if last < len(s) {
		parts = append(parts, s[last:])
	}
	return parts
}
