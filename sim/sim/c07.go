package sim

import (
	"errors"
	"encoding/json"
	"fmt"
	"strconv"
	"strings"

	ds "github.com/sealdice/dicescript"
)

// C07 — budgets and capacity limits fail closed: bounded work, error, no truncation.
//
// The simulated clock counts instruction dispatches and Roll calls (ticks). Abort points are
// enumerated: a program whose fault-free cost is N ticks is re-run with OpCountLimit = k for every
// k up to min(N, 400) (and sampled larger k); each run must return an error or the full program's
// outcome, within 16*k + 4096 ticks. Overrun is cancelled by the clock: a hang becomes a
// deterministic, replayable event at a known tick.

type C07Scenario struct {
	Mode       string // sweep | adversarial | capacity | parse
	GlobalSeed uint64
	Cfg        CfgSpec
	Setup      []string `json:",omitempty"`
	Src        string
	Family     string `json:",omitempty"`
	N          int    `json:",omitempty"`
	Limits     []int64 `json:",omitempty"`
	Lazy       string  `json:",omitempty"` // parse mode: the text is the body of a function / computed value restored from JSON
}

func tickBound(limit int64) int64 { return 16*limit + 4096 }

func c07Gen(seed uint64, tier string) any {
	r := NewRng(seed)
	cfg := GenCfg(r)
	cfg.Seeded = true
	cfg.OpLimit, cfg.ParseLimit = 0, 0
	sc := &C07Scenario{GlobalSeed: r.U64(), Cfg: cfg}
	switch r.Intn(10) {
	case 0, 1:
		sc.Mode = "adversarial"
		sc.Src = resourceAdversarial(r)
		if r.Chance(1, 3) {
			sc.Src = Pick(r, []string{
				"5a6", "3a2m6", "10a8m10k8", "4c5m6", "6c2m10", "1a2m100000000", "100a2", "20000c2m10", "20000a2m2", "10c2m100000000", "3a3m3", "2c2m2",
				"99999d99999", "30001d20", "(9223372036854775807)d8", "9223372036854775807d2", "b99999", "p30001", "f+f+f+f", "1000000d1",
				"func rr(n) { return rr(n+1) }; rr(0)", "&cv = cv + 1; cv", "while 1 { }", "i=0; while 1 { i = i + 1 }",
				"xs=[1..512]; i=0; while i < 100000 { ys = xs + []; i=i+1 }", "`{% while 1 {} %}`", "[1..512].sum() + [1..512].sum()",
			})
		}
		sc.Cfg.WoD, sc.Cfg.DC, sc.Cfg.CoC, sc.Cfg.Fate = true, true, true, true
		sc.Limits = []int64{int64(r.Range(1, 200)), 30000}
	case 2, 3:
		sc.Mode = "capacity"
		sc.Family = Pick(r, []string{"sum", "fsum", "csum", "stsum", "rsum", "dsum", "jsum", "fblocks", "blocks", "holes", "range", "concat", "repeat", "calls", "parens", "array", "stack", "dictlit", "fstrdeep", "slicegrow", "slicetail", "sliceneg"})
		sc.N = capacityN(r, sc.Family)
		sc.Cfg = CfgSpec{Seeded: true, SeedA: 1, SeedB: 2}
	case 4:
		sc.Mode = "parse"
		o := SwarmOpts(r, cfg)
		o.BrokenTail = 200
		g := NewProgGen(r.Fork(), o)
		sc.Src = g.Program(r.Range(1, 4))
		if r.Chance(1, 4) {
			sc.Src = Pick(r, []string{strings.Repeat("(", 30) + "1" + strings.Repeat(")", 30), strings.Repeat("[", 30) + "1" + strings.Repeat("]", 30), "1" + strings.Repeat("+1", 300), strings.Repeat("a.b.", 40) + "c", strings.Repeat("-", 200) + "1"})
		}
		sc.Lazy = Pick(r, []string{"", "", "func", "computed", "stream"})
		if sc.Lazy == "stream" {
			// one expression, so that ReadExpr takes the whole text (what follows an expression would be
			// parsed by the outer parser under its own count)
			sc.Src = Pick(r, []string{"1" + strings.Repeat("+1", r.Range(5, 400)), strings.Repeat("(", r.Range(3, 25)) + "7" + strings.Repeat(")", 25)[:0] + "", "[1" + strings.Repeat(",1", r.Range(5, 200)) + "].len()", "2*(3+4*(5+6*(7+8*(9+" + strings.Repeat("1+", r.Range(1, 100)) + "1))))"})
			if strings.HasPrefix(sc.Src, "(") {
				n := strings.Count(sc.Src, "(")
				sc.Src += strings.Repeat(")", n)
			}
		} else if sc.Lazy != "" && r.Chance(1, 3) {
			sc.Src = Pick(r, []string{"a = 1; " + strings.Repeat("a = a + 1; ", r.Range(5, 60)) + "a", "1" + strings.Repeat("+1", r.Range(5, 200)), "x = [1,2,3]; y = {'k': x}; y.k[1] + " + strings.Repeat("(", 12) + "d6" + strings.Repeat(")", 12)})
		}
	default:
		sc.Mode = "sweep"
		cfg = cfg.Tame()
		sc.Cfg = cfg
		o := SwarmOpts(r, cfg)
		o.Dice = true
		o.BigNums = false
		g := NewProgGen(r.Fork(), o)
		sc.Setup = g.Stmts(r.Range(0, 2))
		sc.Src = g.Program(r.Range(1, 4))
		if r.Chance(1, 4) {
			sc.Setup = nil
			sc.Src = Pick(r, []string{
				"&cv = 40d6; cv; 7", "&cv = 30d4; cv + cv + cv", "&cv = 25d6; func ff() { return cv }; ff(); 7", "&cv = 20d6; func ff() { return cv + 1 }; j = 0; while j < 3 { ff(); j = j + 1 }; j",
				"func gg() { return 30d6 }; &cv = gg() + gg(); cv", "&c1 = 15d6; &c2 = c1 + c1; c2 + c1", "func ff(n0) { if n0 > 0 { return ff(n0 - 1) + 3d6 }; return 0 }; ff(4)",
				"&cv = 12d6k3; xs = [cv, cv, cv]; xs.sum()", "&cv = `{10d6} {5d8}`; cv", "func ff() { return [1,2,3,4].shuffle() }; &cv = ff(); cv; cv.compute()",
				"&cv = 9d6; func g1() { return cv }; func g2() { return g1() + g1() }; g2()",
				// computed values / functions whose result is null, an empty container, zero or an error value
				"func wk() { i = 0; while i < 30 { i = i + 1 } }; &cn = wk(); func ff() { cn; cn; cn; 1 }; ff()", "&cn = [1,2,3,4,5,6,7,8].sum() > 100 ? 1 : null; func ff() { cn; cn; 2 }; ff(); &c2 = cn ?? 3; c2",
				"func wk() { j = 0; while j < 12 { j = j + 1 } }; &ca = wk(); &cb = ca ?? 5; func ff() { return cb + cb }; ff()", "&cz = 10d6 * 0; &ce = []; func ff() { cz; ce; cz }; ff(); 1",
				"func nothing() { }; &cn = nothing(); func deep() { func inner() { cn; cn }; inner(); inner(); 4 }; deep()",
			})
		}
	}
	return sc
}

func capacityN(r *Rng, fam string) int {
	pick := func(limit int) int {
		switch r.Intn(4) {
		case 0:
			return r.Range(1, 10)
		case 1:
			return limit + r.Range(-3, 3)
		case 2:
			return r.Range(limit/2, limit*2)
		default:
			return r.Range(1, limit*3)
		}
	}
	switch fam {
	case "sum", "fsum", "csum", "stsum", "rsum", "dsum", "jsum":
		return pick(4096)
	case "blocks", "holes", "fstrdeep", "fblocks":
		return pick(20)
	case "range", "concat", "repeat", "array":
		return pick(512)
	case "slicegrow", "slicetail", "sliceneg":
		return pick(262)
	case "calls":
		return pick(300)
	case "parens":
		return pick(40)
	case "stack":
		return pick(1000)
	case "dictlit":
		return pick(256)
	}
	return 10
}

// capacityProgram returns a program of the family at scale n and the canonical value it denotes.
func capacityProgram(fam string, n int) (src string, want string) {
	if n < 1 {
		n = 1
	}
	switch fam {
	case "sum": // n terms
		return "1" + strings.Repeat("+1", n-1), "i" + strconv.Itoa(n)
	case "fsum": // the same sum as the body of a function: nested code buffers have the same cap
		return "func big() { return 1" + strings.Repeat("+1", n-1) + " }; big()", "i" + strconv.Itoa(n)
	case "csum": // ... as the body of a computed value
		return "&big = 1" + strings.Repeat("+1", n-1) + "; big", "i" + strconv.Itoa(n)
	case "stsum": // ... as an st computed attribute, read back through the callback value
		return "&v = (1" + strings.Repeat("+1", n-1) + "); v + 0", "i" + strconv.Itoa(n)
	case "fblocks": // n nested blocks inside a function body
		return "func nb() { " + strings.Repeat("if 1 { ", n) + "x = 7" + strings.Repeat(" }", n) + "; return x }; nb()", "i7"
	case "blocks": // n nested if blocks
		return strings.Repeat("if 1 { ", n) + "x = 7" + strings.Repeat(" }", n) + "; x", "i7"
	case "holes": // one template with n holes
		return "`" + strings.Repeat("{1}", n) + "`", "s" + strconv.Quote(strings.Repeat("1", n))
	case "fstrdeep": // n nested templates
		return strings.Repeat("`{", n) + "1" + strings.Repeat("}`", n), `s"1"`
	case "range":
		return "[1.." + strconv.Itoa(n) + "].len()", "i" + strconv.Itoa(n)
	case "concat":
		return "xs = [1.." + strconv.Itoa((n+1)/2) + "]; ys = [1.." + strconv.Itoa(n/2+1) + "]; (xs + ys).len()", "i" + strconv.Itoa((n+1)/2+n/2+1)
	case "repeat":
		return "([0] * " + strconv.Itoa(n) + ").len()", "i" + strconv.Itoa(n)
	case "array": // literal with n elements
		return "[" + strings.TrimSuffix(strings.Repeat("1,", n), ",") + "].len()", "i" + strconv.Itoa(n)
	case "slicegrow": // slice assignment whose end index lies beyond the array: 250 kept + n new elements
		return "xs = [1..300]; xs[250:9999] = [1.." + strconv.Itoa(n) + "]; xs.len()", "i" + strconv.Itoa(250+n)
	case "slicetail": // ... replacing from the last element on, end index far beyond
		return "xs = [1..251]; xs[xs.len()-1:100000] = [1.." + strconv.Itoa(n) + "]; xs.len()", "i" + strconv.Itoa(250+n)
	case "sliceneg": // ... inserting in the middle with a negative end index (nothing removed)
		return "xs = [1..250]; xs[100:-150] = [1.." + strconv.Itoa(n) + "]; xs.len()", "i" + strconv.Itoa(250+n)
	case "calls": // n-deep call chain
		return "func down(k) { if k <= 0 { return 0 }; return down(k-1) + 1 }; down(" + strconv.Itoa(n) + ")", "i" + strconv.Itoa(n)
	case "parens":
		return strings.Repeat("(", n) + "5" + strings.Repeat(")", n), "i5"
	case "stack": // operand stack depth n: right-nested additions keep n operands pending
		return strings.Repeat("1+(", n-1) + "1" + strings.Repeat(")", n-1), "i" + strconv.Itoa(n)
	case "dictlit":
		var sb strings.Builder
		sb.WriteString("{")
		for i := 0; i < n; i++ {
			if i > 0 {
				sb.WriteString(",")
			}
			fmt.Fprintf(&sb, "'k%d':%d", i, i)
		}
		sb.WriteString("}.len()")
		return sb.String(), "i" + strconv.Itoa(n)
	}
	return "1", "i1"
}

type c07Run struct {
	o         *Outcome
	ticks     int64
	steps     int64
	rolls     int64
	cancelled bool
	fate, coc int64
	wodDC     int64
	calls     int64 // sub-VM entries (function calls, computed loads): 100 operations each
	retry     *Outcome // lazy families: the same use once more on the same VM
}

func c07Eval(sc *C07Scenario, limit int64, parseLimit uint64, m *Meter, budget int64, src string) c07Run {
	ResetGlobals(sc.GlobalSeed)
	cfg := sc.Cfg
	cfg.OpLimit = limit
	cfg.ParseLimit = parseLimit
	vm := cfg.NewVM()
	for _, st := range sc.Setup {
		c2 := cfg
		_ = c2
		m.Reset()
		m.Budget = 200_000
		vm.Config.OpCountLimit = 0
		DoCmd(vm, Cmd{Kind: "run", Src: st})
		vm.Config.OpCountLimit = ds.IntType(limit)
	}
	m.Reset()
	m.Budget = budget
	var r c07Run
	seenCtx := map[*ds.Context]bool{}
	m.OnStep = func(s *ds.VerifStep) bool {
		if s.Depth > 0 && !seenCtx[s.Ctx] {
			seenCtx[s.Ctx] = true
			r.calls++
		}
		switch ds.VerifOpName(s.Code) {
		case "dice.fate":
			r.fate++
		case "dice.coc.bonus", "dice.coc.penalty", "coc.bonus", "coc.penalty":
			r.coc++
		case "dice.wod", "dice.dc", "wod", "dc":
			r.wodDC++
		}
		return false
	}
	r.o = DoCmd(vm, Cmd{Kind: "run", Src: src})
	m.OnStep = nil
	r.ticks, r.steps, r.rolls, r.cancelled = m.Ticks, m.Steps, m.Rolls, m.Cancelled
	return r
}

// c07Lazy evaluates an n-term sum that is compiled lazily: through RunExpr (rsum), as the
// default-sides expression of '1d' in max mode (dsum), or as the body of a function restored from
// JSON (jsum). The value is n in each case.
func c07Lazy(sc *C07Scenario, m *Meter) c07Run {
	n := sc.N
	if n < 1 {
		n = 1
	}
	sum := "1" + strings.Repeat("+1", n-1)
	ResetGlobals(sc.GlobalSeed)
	cfg := CfgSpec{Seeded: true, SeedA: 1, SeedB: 2}
	var r c07Run
	m.Reset()
	m.Budget = 2_000_000
	switch sc.Family {
	case "rsum":
		vm := cfg.NewVM()
		r.o = DoCmd(vm, Cmd{Kind: "runexpr", Src: sum})
		r.retry = DoCmd(vm, Cmd{Kind: "runexpr", Src: sum})
	case "dsum":
		cfg.Max = true
		cfg.DefaultSide = sum
		vm := cfg.NewVM()
		r.o = DoCmd(vm, Cmd{Kind: "run", Src: "1d"})
		r.retry = DoCmd(vm, Cmd{Kind: "run", Src: "1d"})
	default:
		vm := cfg.NewVM()
		doc, _ := json.Marshal(map[string]any{"t": 8, "v": map[string]any{"expr": "return " + sum, "name": "big", "params": []string{}}})
		v, err := ds.VMValueFromJSON(doc)
		if err != nil {
			r.o = &Outcome{Kind: "run", Err: "decode: " + err.Error()}
			break
		}
		vm.Attrs.Store("big", v)
		r.o = DoCmd(vm, Cmd{Kind: "run", Src: "big()"})
		r.retry = DoCmd(vm, Cmd{Kind: "run", Src: "big()"})
	}
	r.ticks, r.steps, r.rolls, r.cancelled = m.Ticks, m.Steps, m.Rolls, m.Cancelled
	return r
}

// c07LazyUse restores the text as a function / computed value from JSON and uses it twice on one
// VM (the second use is the retry after whatever the first one did).
func c07LazyUse(sc *C07Scenario, parseLimit uint64, m *Meter) (first, second *Outcome) {
	ResetGlobals(sc.GlobalSeed)
	cfg := sc.Cfg
	cfg.OpLimit = 0
	cfg.ParseLimit = parseLimit
	vm := cfg.NewVM()
	var doc []byte
	use := "lz"
	if sc.Lazy == "func" {
		doc, _ = json.Marshal(map[string]any{"t": int(ds.VMTypeFunction), "v": map[string]any{"expr": sc.Src, "name": "lz", "params": []string{}}})
		use = "lz()"
	} else {
		doc, _ = json.Marshal(map[string]any{"t": int(ds.VMTypeComputedValue), "v": map[string]any{"expr": sc.Src}})
	}
	if sc.Lazy == "stream" {
		// the text reaches the compiler through an embedding program's stream syntax: 'EX' followed by
		// an expression read with ReadExpr, evaluated by the handler with ComputedExecute (the usage the
		// library's own tests show)
		use = "EX" + sc.Src
		_ = vm.RegCustomDiceParser(func(ctx *ds.Context, st *ds.CustomDiceStream) (*ds.CustomDiceParseResult, error) {
			a, ok1 := st.Read()
			b, ok2 := st.Read()
			if !ok1 || !ok2 || a != 'E' || b != 'X' {
				st.ResetAttempt()
				return &ds.CustomDiceParseResult{Matched: false}, nil
			}
			expr, matched, err := st.ReadExpr("")
			if err != nil {
				return nil, err
			}
			if !matched {
				st.ResetAttempt()
				return &ds.CustomDiceParseResult{Matched: false}, nil
			}
			st.Commit()
			return &ds.CustomDiceParseResult{Groups: []string{st.Current()}, Payload: expr, Matched: true}, nil
		}, func(ctx *ds.Context, groups []string, raw any) (*ds.VMValue, string, error) {
			v, _ := raw.(*ds.VMValue)
			if v == nil {
				return nil, "", errors.New("host: no payload")
			}
			ret := v.ComputedExecute(ctx, &ds.BufferSpan{})
			if ctx.Error != nil {
				return nil, "", ctx.Error
			}
			return ret, "", nil
		})
	} else {
		snap := append(append([]byte(`{"lz":`), doc...), '}')
		if err := json.Unmarshal(snap, vm.Attrs); err != nil {
			o := &Outcome{Kind: "run", Err: "decode: " + err.Error()}
			return o, o
		}
	}
	m.Reset()
	m.Budget = 300_000
	first = DoCmd(vm, Cmd{Kind: "run", Src: use})
	c1 := m.Cancelled
	m.Reset()
	m.Budget = 300_000
	second = DoCmd(vm, Cmd{Kind: "run", Src: use})
	if c1 || m.Cancelled {
		return nil, nil
	}
	return first, second
}

func sameResultOutcome(a, b *Outcome) string {
	x, y := *a, *b
	x.NumOp, y.NumOp = 0, 0
	return DiffOutcome(&x, &y)
}

func c07Exec(raw json.RawMessage, res *RunResult) {
	var sc C07Scenario
	if err := json.Unmarshal(raw, &sc); err != nil {
		res.Violate("harness-scenario", "bad scenario: %v", err)
		return
	}
	dg := &Digest{}
	ds.VerifSortedRange = false // Range is sorted by the library itself since the C06 fix; the real loop runs
	m := &Meter{HugeLimit: 8 << 20}
	m.Install()
	defer Uninstall()
	res.CaseKey = HashStr(sc.Mode + sc.Src + sc.Family + fmt.Sprint(sc.N))

	switch sc.Mode {
	case "adversarial":
		for _, mode := range []string{"", "min", "max"} {
			sc.Cfg.Min, sc.Cfg.Max = mode == "min", mode == "max"
			for _, L := range sc.Limits {
				r := c07Eval(&sc, L, 0, m, tickBound(L), sc.Src)
				res.Evals++
				res.Ticks += r.ticks
				res.Fault("budget_configured")
				dg.Add("adv", mode, fmt.Sprint(L), r.o.Key())
				if r.o.Panic != "" {
					continue // C01's subject
				}
				if r.cancelled && m.Huge == "" {
					res.Violate("unbounded-work@"+opOfLastTick(m), "with OpCountLimit=%d (mode %q) the evaluation was still running after %d ticks (bound 16*L+4096 = %d; instructions=%d, dice=%d): work is not proportional to the budget\n  src=%q", L, mode, r.ticks, tickBound(L), r.steps, r.rolls, sc.Src)
					continue
				}
				if m.Huge != "" {
					res.Probe("huge_string_cancelled")
					continue
				}
				if r.o.Err == "" && r.o.NumOp > L {
					res.Violate("no-error-over-budget", "OpCountLimit=%d, the evaluation finished with NumOpCount=%d and no error\n  src=%q", L, r.o.NumOp, sc.Src)
				}
				if r.o.Err != "" {
					res.Probe("error_returned")
				}
			}
		}
		res.Nontrivial = true

	case "sweep":
		base := c07Eval(&sc, 0, 0, m, 300_000, sc.Src)
		res.Evals++
		res.Ticks += base.ticks
		dg.Add("base", sc.Src, base.o.Key())
		if base.cancelled || base.o.Panic != "" {
			break
		}
		// accounting: every instruction and every die is in the counter (the constant dice of a
		// Fate / CoC instruction excepted: 4 resp. 1 per instruction)
		if base.o.Err == "" {
			min := base.steps + base.rolls - 4*base.fate - base.coc + 100*base.calls
			if base.o.NumOp < min {
				site := "other"
				if base.wodDC > 0 {
					site = "wod/dc"
				}
				res.Violate("accounting:uncounted-work@"+site, "NumOpCount=%d after an evaluation that dispatched %d instructions (sub-VMs included), rolled %d dice (%d Fate, %d CoC instructions) and entered %d sub-VM(s) at 100 each: at least %d expected\n  setup=%q\n  src=%q", base.o.NumOp, base.steps, base.rolls, base.fate, base.coc, base.calls, min, sc.Setup, sc.Src)
			}
		}
		N := base.o.NumOp
		if N < 1 {
			N = 1
		}
		var ks []int64
		for k := int64(1); k <= N+1 && k <= 400; k++ {
			ks = append(ks, k)
		}
		r := NewRng(sc.GlobalSeed)
		for i := 0; i < 6 && N > 400; i++ {
			ks = append(ks, int64(r.Range(401, int(N)+50)))
		}
		for _, k := range ks {
			run := c07Eval(&sc, k, 0, m, tickBound(k), sc.Src)
			res.Evals++
			res.Ticks += run.ticks
			res.Fault("budget_abort_point")
			if run.o.Panic != "" {
				res.Violate("abort-panic:"+run.o.Panic, "OpCountLimit=%d: panic\n  src=%q", k, sc.Src)
				break
			}
			if run.cancelled {
				res.Violate("unbounded-work@"+opOfLastTick(m), "with OpCountLimit=%d the evaluation was still running after %d ticks (bound %d)\n  src=%q", k, run.ticks, tickBound(k), sc.Src)
				break
			}
			if run.o.Err != "" && strings.Contains(run.o.Err, "算力") {
				res.Probe("abort_landed")
				continue
			}
			// no budget error: must be exactly the full program's outcome
			if f := sameResultOutcome(base.o, run.o); f != "" {
				res.Violate("partial-result:"+f, "OpCountLimit=%d: the evaluation neither reported the budget nor returned the full program's outcome (differs in %s)\n  src=%q\n  unlimited: %s\n  limited:   %s", k, f, sc.Src, base.o.Short(), run.o.Short())
				break
			}
			if run.o.Err == "" && run.o.NumOp > k {
				res.Violate("no-error-over-budget", "OpCountLimit=%d, finished with NumOpCount=%d and no error\n  src=%q", k, run.o.NumOp, sc.Src)
				break
			}
		}
		res.Nontrivial = N >= 5
		res.State(HashStr(fmt.Sprint(N)))

	case "parse":
		if sc.Lazy != "" {
			c07ParseLazy(&sc, m, res, dg)
			break
		}
		base := c07Eval(&sc, 0, 0, m, 300_000, sc.Src)
		res.Evals++
		dg.Add("base", sc.Src, base.o.Key())
		if base.cancelled || base.o.Panic != "" {
			break
		}
		r := NewRng(sc.GlobalSeed)
		var ks []uint64
		for k := uint64(1); k <= 40; k++ {
			ks = append(ks, k)
		}
		for i := 0; i < 40; i++ {
			ks = append(ks, uint64(r.Range(41, 30000)))
		}
		for _, k := range ks {
			run := c07Eval(&sc, 0, k, m, 300_000, sc.Src)
			res.Evals++
			res.Fault("parse_budget_abort_point")
			if run.o.Panic != "" {
				res.Violate("parse-budget-panic", "ParseExprLimit=%d: panic %s\n  src=%q", k, run.o.Panic, sc.Src)
				break
			}
			if run.o.Err != "" && run.o.Err != base.o.Err {
				res.Probe("parse_abort_landed")
				continue
			}
			if f := sameResultOutcome(base.o, run.o); f != "" {
				res.Violate("parse-partial-result:"+f, "ParseExprLimit=%d: neither an error nor the full program's outcome (differs in %s)\n  src=%q\n  unlimited: %s\n  limited:   %s", k, f, sc.Src, base.o.Short(), run.o.Short())
				break
			}
		}
		res.Nontrivial = true

	case "capacity":
		src, want := capacityProgram(sc.Family, sc.N)
		sc.Src = src
		var run c07Run
		switch sc.Family {
		case "rsum", "dsum", "jsum":
			// the same oversized text reaching the compiler through a sub-VM on first use
			run = c07Lazy(&sc, m)
			want = "i" + strconv.Itoa(sc.N)
		default:
			run = c07Eval(&sc, 0, 0, m, 2_000_000, src)
		}
		res.Evals++
		res.Ticks += run.ticks
		dg.Add("cap", sc.Family, fmt.Sprint(sc.N), run.o.Key())
		res.Fault("capacity_" + sc.Family)
		switch {
		case run.o.Panic != "":
			res.Violate("capacity-panic@"+sc.Family, "family %s at n=%d panicked: %s\n  src=%q", sc.Family, sc.N, run.o.Panic, trunc(src, 200))
		case run.cancelled:
			res.Probe("capacity_cancelled")
		case run.o.Err != "":
			res.Probe("capacity_rejected")
		case run.o.Ret != want:
			res.Violate("capacity-truncated@"+sc.Family, "family %s at n=%d returned %s, the program denotes %s: executed in truncated form\n  src=%q", sc.Family, sc.N, trunc(run.o.Ret, 80), want, trunc(src, 200))
		default:
			res.Probe("capacity_correct")
		}
		listLen := 0
		switch sc.Family {
		case "slicegrow", "slicetail", "sliceneg":
			listLen = 250 + sc.N
			if sc.N < 1 {
				listLen = 251
			}
		case "repeat":
			// (an array literal is not a bulk creation: its length is bounded by the operand stack, the
			// 'stack' / 'array' families cover that capacity)
			listLen = sc.N
		case "concat":
			listLen = (sc.N+1)/2 + sc.N/2 + 1
		}
		if listLen > 0 && run.o.Err == "" && run.o.Panic == "" && !run.cancelled {
			// the same list length through the canonical bulk route: what a range may not create at once,
			// repetition, concatenation and slice assignment may not create at once either
			N := listLen
			ref := c07Eval(&sc, 0, 0, m, 2_000_000, "[1.."+strconv.Itoa(N)+"].len()")
			res.Evals++
			if ref.o.Err != "" && ref.o.Panic == "" && !ref.cancelled {
				res.Violate("capacity-not-enforced@"+sc.Family, "family %s at n=%d produced a list of %s elements, while a list of that length is refused when written as a range (%s): the container-length limit is not applied on this route\n  src=%q", sc.Family, sc.N, run.o.Ret, trunc(ref.o.Err, 80), trunc(src, 200))
			} else {
				res.Probe("capacity_route_consistent")
			}
		}
		if rt := run.retry; rt != nil && !run.cancelled && run.o.Panic == "" {
			res.Fault("retry_same_use")
			switch {
			case rt.Panic != "":
				res.Violate("capacity-panic@"+sc.Family, "family %s at n=%d panicked when used a second time: %s", sc.Family, sc.N, rt.Panic)
			case rt.Err == "" && rt.Ret != want:
				res.Violate("capacity-truncated-on-retry@"+sc.Family, "family %s at n=%d: the second use on the same VM returned %s, the text denotes %s (first use: %s)", sc.Family, sc.N, trunc(rt.Ret, 80), want, run.o.Short())
			}
		}
		res.Nontrivial = sc.N > 3
		res.State(HashStr(sc.Family + fmt.Sprint(run.o.Err != "")))
	}
	res.Digest = dg.Hex()
}

// c07ParseLazy: the parse budget applied to a text that is compiled on first use in a sub-VM.
// A refused use consumed no dice and changed no variable, so the retry on the same VM is refused
// again or returns what the unlimited VM returns for its first use; a use that is not refused
// returns what the unlimited VM returns for the same use.
func c07ParseLazy(sc *C07Scenario, m *Meter, res *RunResult, dg *Digest) {
	b1, b2 := c07LazyUse(sc, 0, m)
	res.Evals += 2
	if b1 == nil || b1.Panic != "" || b2.Panic != "" {
		return
	}
	dg.Add("lazybase", sc.Lazy, sc.Src, b1.Key(), b2.Key())
	r := NewRng(sc.GlobalSeed)
	var ks []uint64
	for k := uint64(1); k <= 40; k++ {
		ks = append(ks, k)
	}
	for i := 0; i < 40; i++ {
		ks = append(ks, uint64(r.Range(41, 30000)))
	}
	for _, k := range ks {
		o1, o2 := c07LazyUse(sc, k, m)
		res.Evals += 2
		res.Fault("parse_budget_abort_point")
		if o1 == nil {
			continue
		}
		if o1.Panic != "" || o2.Panic != "" {
			res.Violate("parse-budget-panic", "ParseExprLimit=%d, restored %s: panic %s%s\n  body=%q", k, sc.Lazy, o1.Panic, o2.Panic, sc.Src)
			break
		}
		refused := o1.Err != "" && o1.Err != b1.Err
		if !refused && o1.Err == "" {
			// the same text given to Parse directly under the same budget: what Parse refuses for its
			// size, no other route may compile and run
			cfg := sc.Cfg
			cfg.OpLimit, cfg.ParseLimit = 0, k
			direct := DoCmd(cfg.NewVM(), Cmd{Kind: "parse", Src: sc.Src})
			res.Evals++
			if strings.Contains(direct.Err, "max number of expressions parsed") {
				res.Violate("parse-budget-not-enforced@"+sc.Lazy, "ParseExprLimit=%d: Parse refuses the text for its size, but reached through a %s it was compiled and evaluated (%s)\n  text=%q", k, sc.Lazy, o1.Short(), trunc(sc.Src, 200))
				break
			}
		}
		if refused {
			res.Probe("parse_abort_landed")
			res.Fault("retry_after_refusal")
			// the refused first use consumed nothing, so an accepted retry is the unlimited VM's first use
			if f := sameResultOutcome(b1, o2); o2.Err == "" && f != "" {
				res.Violate("parse-refused-then-partial:"+f, "ParseExprLimit=%d: the first use of a restored %s was refused (%s); the retry on the same VM returned %s with no error, the complete text denotes %s: a partially compiled body was kept and executed\n  body=%q", k, sc.Lazy, trunc(o1.Err, 120), trunc(o2.Ret, 80), trunc(b1.Ret, 80), sc.Src)
				break
			}
			continue
		}
		if f := sameResultOutcome(b1, o1); f != "" {
			res.Violate("parse-partial-result:"+f, "ParseExprLimit=%d, restored %s: the first use is neither an error nor the unlimited VM's outcome (differs in %s)\n  body=%q\n  unlimited: %s\n  limited:   %s", k, sc.Lazy, f, sc.Src, b1.Short(), o1.Short())
			break
		}
		if o2.Err != "" && o2.Err != b2.Err {
			continue
		}
		if f := sameResultOutcome(b2, o2); f != "" {
			res.Violate("parse-partial-result:"+f, "ParseExprLimit=%d, restored %s: the second use is neither an error nor the unlimited VM's outcome (differs in %s)\n  body=%q\n  unlimited: %s\n  limited:   %s", k, sc.Lazy, f, sc.Src, b2.Short(), o2.Short())
			break
		}
	}
	res.Nontrivial = true
}

func opOfLastTick(m *Meter) string {
	if m.CurOp != "" {
		return m.CurOp
	}
	if m.prevOp != "" {
		return m.prevOp
	}
	return "?"
}

func c07Shrink(raw json.RawMessage) []json.RawMessage {
	var sc C07Scenario
	if json.Unmarshal(raw, &sc) != nil {
		return nil
	}
	var out []json.RawMessage
	emit := func(f func(s *C07Scenario)) {
		var c C07Scenario
		json.Unmarshal(raw, &c)
		f(&c)
		out = append(out, MustJSON(&c))
	}
	if sc.Mode == "capacity" {
		if sc.N > 1 {
			emit(func(s *C07Scenario) { s.N = s.N / 2 })
			emit(func(s *C07Scenario) { s.N = s.N - 1 })
		}
		return out
	}
	if len(sc.Setup) > 0 {
		emit(func(s *C07Scenario) { s.Setup = nil })
	}
	if len(sc.Limits) > 1 {
		for i := range sc.Limits {
			i := i
			emit(func(s *C07Scenario) { s.Limits = []int64{s.Limits[i]} })
		}
	}
	for _, t := range shrinkText(sc.Src) {
		t := t
		emit(func(s *C07Scenario) { s.Src = t })
	}
	return out
}

func init() {
	Register(&Check{
		ID: "C07", Level: "fault_enumeration",
		QuickRuns: 2500, ThoroughRuns: 100000,
		Gen: c07Gen, Exec: c07Exec, Shrink: c07Shrink,
		Rule: "four families. sweep: a generated program is costed without a budget (N operations), then re-run with OpCountLimit = k for EVERY k <= min(N+1, 400) plus sampled larger k; each run must report the budget or return exactly the full program's outcome, within 16k+4096 ticks of the simulated clock (instruction dispatches + Roll calls); the fault-free run's NumOpCount must cover every instruction and die (constant dice of Fate/CoC instructions excepted). adversarial: resource-hungry programs (huge counts, exploding pools, recursion, doubling containers/strings, endless loops) under budgets {small, 30000} x normal/min/max mode: must end within the tick bound, with an error once over budget. parse: ParseExprLimit = k for k = 1..40 and 40 sampled larger values: error or full outcome, never a panic; in three fifths of the cases the text reaches the compiler indirectly - as the body of a function / computed value restored from JSON, or through an embedding program's stream syntax that reads an expression with ReadExpr and evaluates it with ComputedExecute - and is used twice on the same VM under each k; what Parse itself refuses for its size under the same k must be refused on these routes too; a refused first use must be refused again or yield exactly the unlimited first use (never a value from a partially compiled body). capacity: scaled program families whose value is known by construction (n-term sums, n nested blocks / template holes / templates / parentheses, n-element ranges, concats, repeats, literals, n-deep call chains, n pending operands), n across each built-in limit: the known value or an error; list lengths reached by repetition, concatenation and slice assignment (end index beyond the array, from the last element, negative end) are also checked against the range route: a length a range refuses to create must be refused there too; lazily compiled families (RunExpr, default-sides text, restored function) are used a second time on the same VM with the same demand. distinct = distinct (family, program, n); non-trivial = cost >= 5 operations (sweep) / n > 3 (capacity)",
		Real: []string{"dicescript parser, compiler, VM, roll functions with their budget accounting"},
		Stub: []string{"simulated clock (ticks counted by the step and roll hooks) as the measure of work and as watchdog"},
		Assumptions: []string{"the bound 16*L+4096 is the check's constant: per-instruction constant dice (Fate 4, CoC 1) and the +100 call surcharge can never trip it, an uncounted pool must"},
	})
}
