package sim

import (
	"encoding/json"
	"encoding/binary"
	"encoding/hex"
	"fmt"
	"math"
	"runtime"
	"sort"
	"strconv"
	"strings"

	ds "github.com/sealdice/dicescript"
	"golang.org/x/exp/rand"
)

// ---------------------------------------------------------------- canonical form of a value

// Canon renders a value independently of ToString: type tags, sorted dict keys, floats by bits,
// cycles marked. It is what oracles compare.
func Canon(v *ds.VMValue) string {
	if n := ExpandedSize(v); n > PrintLimit {
		return fmt.Sprintf("<huge value: expanded size %d>", n)
	}
	var sb strings.Builder
	canonInto(&sb, v, map[any]bool{}, 0)
	return sb.String()
}

func canonInto(sb *strings.Builder, v *ds.VMValue, seen map[any]bool, depth int) {
	if v == nil {
		sb.WriteString("<nil>")
		return
	}
	if depth > 200 {
		sb.WriteString("<deep>")
		return
	}
	switch v.TypeId {
	case ds.VMTypeInt:
		if i, ok := v.Value.(ds.IntType); ok {
			sb.WriteString("i" + strconv.FormatInt(int64(i), 10))
		} else {
			fmt.Fprintf(sb, "i<bad %T>", v.Value)
		}
	case ds.VMTypeFloat:
		if f, ok := v.Value.(float64); ok {
			sb.WriteString("f" + strconv.FormatUint(math.Float64bits(f), 16))
		} else {
			fmt.Fprintf(sb, "f<bad %T>", v.Value)
		}
	case ds.VMTypeString:
		if s, ok := v.Value.(string); ok {
			sb.WriteString("s" + strconv.Quote(s))
		} else {
			fmt.Fprintf(sb, "s<bad %T>", v.Value)
		}
	case ds.VMTypeNull:
		sb.WriteString("null")
	case ds.VMTypeArray:
		ad, ok := v.Value.(*ds.ArrayData)
		if !ok || ad == nil {
			fmt.Fprintf(sb, "arr<bad %T>", v.Value)
			return
		}
		if seen[ad] {
			sb.WriteString("arr<cycle>")
			return
		}
		seen[ad] = true
		sb.WriteString("[")
		for i, e := range ad.List {
			if i > 0 {
				sb.WriteString(",")
			}
			canonInto(sb, e, seen, depth+1)
		}
		sb.WriteString("]")
		delete(seen, ad)
	case ds.VMTypeDict:
		dd, ok := v.Value.(*ds.DictData)
		if !ok || dd == nil || dd.Dict == nil {
			fmt.Fprintf(sb, "dict<bad %T>", v.Value)
			return
		}
		if seen[dd] {
			sb.WriteString("dict<cycle>")
			return
		}
		seen[dd] = true
		canonMapInto(sb, dd.Dict, seen, depth)
		delete(seen, dd)
	case ds.VMTypeComputedValue:
		cd, ok := v.Value.(*ds.ComputedData)
		if !ok || cd == nil {
			fmt.Fprintf(sb, "comp<bad %T>", v.Value)
			return
		}
		if seen[cd] {
			sb.WriteString("comp<cycle>")
			return
		}
		seen[cd] = true
		sb.WriteString("&(" + strconv.Quote(cd.Expr) + ")")
		if cd.Attrs != nil && cd.Attrs.Length() > 0 {
			canonMapInto(sb, cd.Attrs, seen, depth)
		}
		delete(seen, cd)
	case ds.VMTypeFunction:
		fd, ok := v.Value.(*ds.FunctionData)
		if !ok || fd == nil {
			fmt.Fprintf(sb, "func<bad %T>", v.Value)
			return
		}
		fmt.Fprintf(sb, "func %s(%s){%s}", fd.Name, strings.Join(fd.Params, ","), strconv.Quote(fd.Expr))
		if fd.Self != nil {
			sb.WriteString("self=")
			if seen[fd] {
				sb.WriteString("<cycle>")
			} else {
				seen[fd] = true
				canonInto(sb, fd.Self, seen, depth+1)
				delete(seen, fd)
			}
		}
	case ds.VMTypeNativeFunction:
		fd, ok := v.Value.(*ds.NativeFunctionData)
		if !ok || fd == nil {
			fmt.Fprintf(sb, "nfunc<bad %T>", v.Value)
			return
		}
		sb.WriteString("nfunc " + fd.Name)
		if fd.Self != nil {
			sb.WriteString(" self=")
			if seen[fd] {
				sb.WriteString("<cycle>")
			} else {
				seen[fd] = true
				canonInto(sb, fd.Self, seen, depth+1)
				delete(seen, fd)
			}
		}
	case ds.VMTypeNativeObject:
		od, ok := v.Value.(*ds.NativeObjectData)
		if !ok || od == nil {
			fmt.Fprintf(sb, "nobj<bad %T>", v.Value)
			return
		}
		sb.WriteString("nobj " + od.Name)
	default:
		fmt.Fprintf(sb, "type%d", int(v.TypeId))
	}
}

func canonMapInto(sb *strings.Builder, m *ds.ValueMap, seen map[any]bool, depth int) {
	type kv struct {
		k string
		v *ds.VMValue
	}
	var items []kv
	m.Range(func(k string, v *ds.VMValue) bool {
		items = append(items, kv{k, v})
		return true
	})
	sort.Slice(items, func(i, j int) bool { return items[i].k < items[j].k })
	sb.WriteString("{")
	for i, it := range items {
		if i > 0 {
			sb.WriteString(",")
		}
		sb.WriteString(strconv.Quote(it.k) + ":")
		canonInto(sb, it.v, seen, depth+1)
	}
	sb.WriteString("}")
}

func CanonMap(m *ds.ValueMap) string {
	if m == nil {
		return "<nilmap>"
	}
	if n := ExpandedSize(ds.NewDictVal(m).V()); n > PrintLimit {
		return fmt.Sprintf("<huge map: expanded size %d>", n)
	}
	var sb strings.Builder
	canonMapInto(&sb, m, map[any]bool{}, 0)
	return sb.String()
}

// ExpandedSize is the number of nodes a value has when printed as a tree (shared sub-structures
// counted once per reference), computed on the DAG with memoisation and saturating at 1e12.
// Printing (ToString, ToRepr, ToJSON, and this package's Canon) costs time and memory
// proportional to it.
func ExpandedSize(v *ds.VMValue) int64 {
	memo := map[any]int64{}
	onPath := map[any]bool{}
	return expSize(v, memo, onPath)
}

const expSat = int64(1e12)

func expSize(v *ds.VMValue, memo map[any]int64, onPath map[any]bool) int64 {
	if v == nil {
		return 1
	}
	var key any
	var kids []*ds.VMValue
	switch d := v.Value.(type) {
	case string:
		return 1 + int64(len(d)/16)
	case *ds.ArrayData:
		if d == nil {
			return 1
		}
		key = d
		kids = d.List
	case *ds.DictData:
		if d == nil || d.Dict == nil {
			return 1
		}
		key = d
		d.Dict.Range(func(k string, e *ds.VMValue) bool { kids = append(kids, e); return true })
	case *ds.ComputedData:
		if d == nil || d.Attrs == nil {
			return 1
		}
		key = d
		d.Attrs.Range(func(k string, e *ds.VMValue) bool { kids = append(kids, e); return true })
	case *ds.FunctionData:
		// a bound method carries the value it is bound to
		if d == nil || d.Self == nil {
			return 1
		}
		key = d
		kids = []*ds.VMValue{d.Self}
	case *ds.NativeFunctionData:
		if d == nil || d.Self == nil {
			return 1
		}
		key = d
		kids = []*ds.VMValue{d.Self}
	default:
		return 1
	}
	if n, ok := memo[key]; ok {
		return n
	}
	if onPath[key] {
		return 1 // cycles are cut by every printer
	}
	onPath[key] = true
	n := int64(1)
	for _, k := range kids {
		n += expSize(k, memo, onPath)
		if n > expSat {
			n = expSat
			break
		}
	}
	delete(onPath, key)
	memo[key] = n
	return n
}

// PrintLimit: values whose expanded size exceeds this are not printed by the harness.
const PrintLimit = int64(2_000_000)

// ---------------------------------------------------------------- configuration

// CfgSpec is the serialisable part of RollConfig plus the seed.
type CfgSpec struct {
	WoD, CoC, Fate, DC         bool   `json:",omitempty"`
	NoBitwise, NoStmts, NoND   bool   `json:",omitempty"`
	IgnoreDiv0                 bool   `json:",omitempty"`
	Min, Max                   bool   `json:",omitempty"`
	DefaultSide                string `json:",omitempty"`
	OpLimit                    int64  `json:",omitempty"`
	ParseLimit                 uint64 `json:",omitempty"`
	Lang                       int    `json:",omitempty"`
	Seeded                     bool   `json:",omitempty"`
	SeedA, SeedB               uint64 `json:",omitempty"`
}

func (c CfgSpec) Apply(vm *ds.Context) {
	vm.Config.EnableDiceWoD = c.WoD
	vm.Config.EnableDiceCoC = c.CoC
	vm.Config.EnableDiceFate = c.Fate
	vm.Config.EnableDiceDoubleCross = c.DC
	vm.Config.DisableBitwiseOp = c.NoBitwise
	vm.Config.DisableStmts = c.NoStmts
	vm.Config.DisableNDice = c.NoND
	vm.Config.IgnoreDiv0 = c.IgnoreDiv0
	vm.Config.DiceMinMode = c.Min
	vm.Config.DiceMaxMode = c.Max
	vm.Config.DefaultDiceSideExpr = c.DefaultSide
	vm.Config.OpCountLimit = ds.IntType(c.OpLimit)
	vm.Config.ParseExprLimit = c.ParseLimit
	vm.Config.ParseErrorLanguage = c.Lang
}

func SeedBytes(a, b uint64) []byte {
	// PCGSource.MarshalBinary layout: 16 bytes big-endian (high, low)
	buf := make([]byte, 16)
	binary.BigEndian.PutUint64(buf[:8], a)
	binary.BigEndian.PutUint64(buf[8:], b)
	return buf
}

// NewVM builds a context the way a host does.
func (c CfgSpec) NewVM() *ds.Context {
	vm := &ds.Context{}
	if c.Seeded {
		vm.Seed = SeedBytes(c.SeedA, c.SeedB)
	}
	vm.Init()
	c.Apply(vm)
	return vm
}

// NewVMFromSeed builds a context whose generator continues from captured bytes.
func (c CfgSpec) NewVMFromSeed(seed []byte) *ds.Context {
	vm := &ds.Context{}
	vm.Seed = append([]byte(nil), seed...)
	vm.Init()
	c.Apply(vm)
	return vm
}

// Tame removes the configurations in which known, separately recorded resource defects of the
// unchanged tree (C07: exploding pools never terminate in max mode) would hang checks that are
// about something else.
func (c CfgSpec) Tame() CfgSpec {
	if c.Max {
		c.WoD, c.DC = false, false
	}
	return c
}

func GenCfg(r *Rng) CfgSpec {
	c := CfgSpec{}
	c.WoD, c.CoC, c.Fate, c.DC = r.Chance(3, 4), r.Chance(3, 4), r.Chance(3, 4), r.Chance(3, 4)
	c.NoBitwise = r.Chance(1, 6)
	c.NoStmts = r.Chance(1, 10)
	c.NoND = r.Chance(1, 8)
	c.IgnoreDiv0 = r.Chance(1, 4)
	switch r.Intn(8) {
	case 0:
		c.Min = true
	case 1:
		c.Max = true
	}
	switch r.Intn(6) {
	case 0:
		c.DefaultSide = "20"
	case 1:
		c.DefaultSide = "面数 ?? 6"
	}
	c.Seeded = true
	c.SeedA, c.SeedB = r.U64(), r.U64()
	return c
}

// ---------------------------------------------------------------- commands & outcomes

// Cmd is one host action on a VM.
type Cmd struct {
	Kind  string `json:"k"`           // run | parse | rerun | runexpr | observe | restore (Src = JSON variable map) | lang (Src = 0/1/2)
	Src   string `json:"s,omitempty"` // program text
	Local bool   `json:"l,omitempty"` // runexpr: share locals
}

// Outcome is what a command returned, in canonical form.
type Outcome struct {
	Kind    string
	Parsed  bool // run/parse: the text was accepted by the parser (RunAfterParsed is defined afterwards)
	Panic   string // signature, "" if none
	PanicAt string
	Err     string
	HasRet  bool
	Ret     string
	RetStr  string
	Detail  string
	Matched string
	Rest    string
	NumOp   int64
	Seed    string
	Attrs   string
	Extra   string
}

func (o *Outcome) Key() string {
	return strings.Join([]string{o.Kind, "P=" + o.Panic, "E=" + o.Err, "R=" + o.Ret, "S=" + o.RetStr, "D=" + o.Detail,
		"M=" + o.Matched, "T=" + o.Rest, "N=" + strconv.FormatInt(o.NumOp, 10), "G=" + o.Seed, "A=" + o.Attrs, "X=" + o.Extra}, "\x1e")
}

// Short returns a compact description for messages.
func (o *Outcome) Short() string {
	s := o.Kind + ":"
	if o.Panic != "" {
		return s + " PANIC " + o.Panic
	}
	if o.Err != "" {
		s += " err=" + strconv.Quote(trunc(o.Err, 160))
	}
	if o.HasRet {
		s += " ret=" + trunc(o.Ret, 160)
	}
	s += " detail=" + strconv.Quote(trunc(o.Detail, 120)) + " matched=" + strconv.Quote(trunc(o.Matched, 60)) + " rest=" + strconv.Quote(trunc(o.Rest, 60)) +
		" ops=" + strconv.FormatInt(o.NumOp, 10) + " gen=" + o.Seed + " attrs=" + trunc(o.Attrs, 200)
	if o.Extra != "" {
		s += " extra=" + trunc(o.Extra, 120)
	}
	return s
}

// DiffOutcome names the first differing field.
func DiffOutcome(a, b *Outcome) string {
	switch {
	case a.Panic != b.Panic:
		return "panic"
	case a.Err != b.Err:
		return "error"
	case a.HasRet != b.HasRet || a.Ret != b.Ret:
		return "value"
	case a.RetStr != b.RetStr:
		return "value-text"
	case a.Detail != b.Detail:
		return "detail"
	case a.Matched != b.Matched:
		return "matched"
	case a.Rest != b.Rest:
		return "rest"
	case a.NumOp != b.NumOp:
		return "opcount"
	case a.Seed != b.Seed:
		return "generator"
	case a.Attrs != b.Attrs:
		return "variables"
	case a.Extra != b.Extra:
		return "extra"
	}
	return ""
}

// cancelSentinel unwinds an evaluation from inside Roll when the tick budget is exhausted.
type cancelSentinel struct{}

// panicSite returns the innermost dicescript frame of the current panic and a message class.
func panicSite(rec any) (site string, sig string) {
	pcs := make([]uintptr, 64)
	n := runtime.Callers(3, pcs)
	frames := runtime.CallersFrames(pcs[:n])
	site = "?"
	for {
		fr, more := frames.Next()
		if strings.Contains(fr.Function, "sealdice/dicescript.") && !strings.Contains(fr.Function, "dicescript.verif") && !strings.Contains(fr.Function, "dicescript.Verif") {
			fn := fr.Function[strings.Index(fr.Function, "sealdice/dicescript.")+len("sealdice/dicescript."):]
			site = fn
			break
		}
		if !more {
			break
		}
	}
	return site, "panic@" + site + ":" + panicClass(rec)
}

var digitsRun = strings.NewReplacer("0", "#", "1", "#", "2", "#", "3", "#", "4", "#", "5", "#", "6", "#", "7", "#", "8", "#", "9", "#")

func panicClass(rec any) string {
	msg := fmt.Sprint(rec)
	if e, ok := rec.(error); ok {
		msg = e.Error()
	}
	msg = digitsRun.Replace(msg)
	for strings.Contains(msg, "##") {
		msg = strings.ReplaceAll(msg, "##", "#")
	}
	// interface conversion messages carry the dynamic type: keep them, they are the class
	return trunc(msg, 90)
}

// Guard runs f and converts a panic into (site, signature). Simulator cancellation is not a panic.
func Guard(f func()) (panicked bool, cancelled bool, site, sig, msg string) {
	defer func() {
		if rec := recover(); rec != nil {
			if _, ok := rec.(cancelSentinel); ok {
				cancelled = true
				return
			}
			panicked = true
			site, sig = panicSite(rec)
			msg = fmt.Sprint(rec)
		}
	}()
	f()
	return
}

func seedHex(vm *ds.Context) string {
	if vm.RandSrc == nil {
		return "global"
	}
	b, err := vm.RandSrc.MarshalBinary()
	if err != nil {
		return "err:" + err.Error()
	}
	return hex.EncodeToString(b)
}

// Observe reads everything a host can read after a command, crash-safely.
func Observe(vm *ds.Context, o *Outcome, withDetail bool) {
	p, _, _, sig, _ := Guard(func() {
		if vm.Error != nil && o.Err == "" {
			// Error is only part of the outcome when the call reported it
		}
		huge := false
		if o.Err == "" && vm.Ret != nil {
			o.HasRet = true
			o.Ret = Canon(vm.Ret)
			if ExpandedSize(vm.Ret) > PrintLimit {
				huge = true
				o.RetStr = "<huge>"
				o.Extra = "huge-result"
			} else {
				o.RetStr = vm.Ret.ToString()
			}
		}
		if withDetail && o.Err == "" && !huge {
			o.Detail = vm.GetDetailText()
		}
		if o.Err == "" {
			// Matched/RestInput are only defined after a successful run (after an error they still
			// hold whatever an earlier command left there)
			o.Matched = vm.Matched
			o.Rest = vm.RestInput
		}
		o.NumOp = int64(vm.NumOpCount)
		o.Seed = seedHex(vm)
		o.Attrs = CanonMap(vm.Attrs)
	})
	if p && o.Panic == "" {
		o.Panic = sig
		o.PanicAt = "observe"
	}
}

// ExpandSrc turns the compact spelling of a deeply nested source, "@@deep:<kind>:<n>", into the
// source itself (n nested brackets / parentheses / dict literals / calls / templates around 1);
// every other text is returned as it is. Scenarios stay small, the library gets the real text.
func ExpandSrc(src string) string {
	if !strings.HasPrefix(src, "@@deep:") {
		return src
	}
	parts := strings.Split(src, ":")
	if len(parts) != 3 {
		return src
	}
	n, err := strconv.Atoi(parts[2])
	if err != nil || n < 0 || n > 2_000_000 {
		return src
	}
	switch parts[1] {
	case "br":
		return strings.Repeat("[", n) + "1" + strings.Repeat("]", n)
	case "pa":
		return strings.Repeat("(", n) + "1" + strings.Repeat(")", n)
	case "dict":
		return strings.Repeat("{'a':", n) + "1" + strings.Repeat("}", n)
	case "call":
		return strings.Repeat("f(", n) + "1" + strings.Repeat(")", n)
	case "tpl":
		return strings.Repeat("`{", n) + "1" + strings.Repeat("}`", n)
	case "idx":
		return "x" + strings.Repeat("[0]", n)
	case "neg":
		return strings.Repeat("-", n) + "1"
	case "attr":
		return "x" + strings.Repeat(".a", n)
	}
	return src
}

// DoCmd executes one command on a VM and captures its outcome.
func DoCmd(vm *ds.Context, c Cmd) *Outcome {
	c.Src = ExpandSrc(c.Src)
	o := &Outcome{Kind: c.Kind}
	var err error
	var ret *ds.VMValue
	p, cancelled, _, sig, _ := Guard(func() {
		switch c.Kind {
		case "run":
			// Run is Parse followed by RunAfterParsed; done in two steps to know whether the text was accepted
			err = vm.Parse(c.Src)
			if err == nil {
				o.Parsed = true
				err = vm.RunAfterParsed()
			}
		case "parse":
			err = vm.Parse(c.Src)
			o.Parsed = err == nil
		case "rerun":
			err = vm.RunAfterParsed()
		case "runexpr":
			ret, err = vm.RunExpr(c.Src, c.Local)
		case "restore":
			// the host rolls its VM's variables back to a stored snapshot, in place
			err = json.Unmarshal([]byte(c.Src), vm.Attrs)
		case "flags":
			// the host changes syntax switches of its VM between evaluations: "coc=0,wod=1,fate=0,dc=1,stmt=0,..."
			for _, kv := range strings.Split(c.Src, ",") {
				k, v, _ := strings.Cut(kv, "=")
				on := v == "1"
				switch k {
				case "coc":
					vm.Config.EnableDiceCoC = on
				case "wod":
					vm.Config.EnableDiceWoD = on
				case "fate":
					vm.Config.EnableDiceFate = on
				case "dc":
					vm.Config.EnableDiceDoubleCross = on
				case "nostmt":
					vm.Config.DisableStmts = on
				case "nond":
					vm.Config.DisableNDice = on
				case "nobit":
					vm.Config.DisableBitwiseOp = on
				}
			}
		case "lang":
			// the host changes the error language of its VM between evaluations
			n, _ := strconv.Atoi(c.Src)
			vm.Config.ParseErrorLanguage = n
		}
	})
	if cancelled || curMeterCancelled() {
		o.Err = "<cancelled by simulator>"
		vm.IsRunning = false
		err = nil
	}
	if p {
		o.Panic = sig
		o.PanicAt = c.Kind
		vm.IsRunning = false
		return o
	}
	if err != nil {
		o.Err = err.Error()
	}
	switch c.Kind {
	case "run", "rerun":
		Observe(vm, o, true)
	case "parse":
		// a host may look at the listing and the matched offset after Parse
		o.NumOp = int64(vm.NumOpCount)
		o.Seed = seedHex(vm)
		o.Attrs = CanonMap(vm.Attrs)
	case "runexpr":
		if err == nil && ret != nil {
			o.HasRet = true
			o.Ret = Canon(ret)
		}
		o.NumOp = int64(vm.NumOpCount)
		o.Seed = seedHex(vm)
		o.Attrs = CanonMap(vm.Attrs)
	}
	return o
}

// ObservationBurst performs the read-only API calls a host may make at any time. It returns a
// digest of what it saw and a panic signature if one of them panicked.
func ObservationBurst(vm *ds.Context) (seen string, panicSig string) {
	var parts []string
	if vm.Ret != nil && ExpandedSize(vm.Ret) > PrintLimit {
		// printing would take time and memory exponential in the program size: reported by the
		// caller as a resource finding, not executed
		return "huge-result", ""
	}
	calls := []struct {
		name string
		f    func() string
	}{
		{"GetDetailText", func() string { return vm.GetDetailText() }},
		{"GetDetailText2", func() string { return vm.GetDetailText() }},
		{"GetAsmText", func() string { return vm.GetAsmText() }},
		{"GetErrorText", func() string { return vm.GetErrorText() }},
		{"IsCalculateExists", func() string { return strconv.FormatBool(vm.IsCalculateExists()) }},
		{"GetCurSeed", func() string { b, _ := vm.GetCurSeed(); return hex.EncodeToString(b) }},
		{"Ret.ToString", func() string {
			if vm.Ret == nil {
				return "<nil>"
			}
			return vm.Ret.ToString()
		}},
		{"Ret.ToRepr", func() string {
			if vm.Ret == nil {
				return "<nil>"
			}
			return vm.Ret.ToRepr()
		}},
		{"Ret.ToJSON", func() string {
			if vm.Ret == nil {
				return "<nil>"
			}
			b, err := vm.Ret.ToJSON()
			if err != nil {
				return "err:" + err.Error()
			}
			return string(b)
		}},
		{"StackTop", func() string { return strconv.Itoa(vm.StackTop()) }},
	}
	for _, c := range calls {
		var s string
		p, _, _, sig, _ := Guard(func() { s = c.f() })
		if p {
			if panicSig == "" {
				panicSig = sig + " in " + c.name
			}
			s = "PANIC"
		}
		parts = append(parts, c.name+"="+s)
	}
	return strings.Join(parts, "\x1e"), panicSig
}

// ---------------------------------------------------------------- dice ledger and clock

// Die is one ledger record.
type Die struct {
	Sides  int64
	Mode   int
	Face   int64
	Src    *rand.PCGSource
	Forced bool
	Tick   int64
	Op     string // opcode being executed (main or sub VM), "" outside evaluation
}

// Meter counts simulated time (instruction dispatches + Roll calls) and holds the dice ledger.
type Meter struct {
	Ticks      int64
	Steps      int64
	Rolls      int64
	Budget     int64 // 0 = none; exceeding it cancels the evaluation
	Cancelled  bool
	Ledger     []Die
	KeepLedger bool
	CurOp      string
	// Force, when set, chooses faces (mode 0 only). Return 0 to let the real generator decide.
	Force func(sides int64) int64
	// OnStep is called for every instruction, after the clock ticked.
	OnStep func(s *ds.VerifStep) bool
	MaxDepth int
	DepthCap int // cancel when a sub-VM deeper than this starts executing (0 = none)
	// HugeLimit: a string on top of the operand stack longer than this is recorded in Huge (with the
	// opcode that produced it) and the evaluation is cancelled: memory exhaustion becomes a
	// deterministic, attributable event instead of a dead worker. 0 = off.
	HugeLimit int
	Huge      string
	prevOp    string
}

var curMeter *Meter

// curMeterCancelled: the library may recover the cancellation sentinel itself (its dispatch loop
// converts panics into errors); the meter remembers that the simulator cancelled.
func curMeterCancelled() bool { return curMeter != nil && curMeter.Cancelled }

// Install wires the meter into the package hooks. Single-threaded engines only.
func (m *Meter) Install() {
	curMeter = m
	ds.VerifStepHook = func(s *ds.VerifStep) bool {
		m.Ticks++
		m.Steps++
		if s.Depth > m.MaxDepth {
			m.MaxDepth = s.Depth
		}
		if m.KeepLedger {
			m.CurOp = ds.VerifOpName(s.Code)
		}
		if m.Budget > 0 && m.Ticks > m.Budget {
			m.Cancelled = true
			return true
		}
		if m.DepthCap > 0 && s.Depth > m.DepthCap {
			m.Cancelled = true
			return true
		}
		if m.HugeLimit > 0 {
			if s.Top > 0 {
				if v := ds.VerifStackAt(s.Ctx, s.Top-1); v != nil && v.TypeId == ds.VMTypeString {
					if str, ok := v.Value.(string); ok && len(str) > m.HugeLimit {
						m.Huge = m.prevOp
						m.Cancelled = true
						return true
					}
				}
			}
			m.prevOp = ds.VerifOpName(s.Code)
		}
		if m.OnStep != nil {
			return m.OnStep(s)
		}
		return false
	}
	ds.VerifRollHook = func(src *rand.PCGSource, sides ds.IntType, mode int, real func() ds.IntType) ds.IntType {
		m.Ticks++
		m.Rolls++
		if m.Budget > 0 && m.Ticks > m.Budget {
			m.Cancelled = true
			panic(cancelSentinel{})
		}
		var face ds.IntType
		forced := false
		if m.Force != nil && mode == 0 && sides > 0 {
			if f := m.Force(int64(sides)); f > 0 {
				face = ds.IntType(f)
				forced = true
			}
		}
		if !forced {
			face = real()
		}
		if m.KeepLedger {
			m.Ledger = append(m.Ledger, Die{Sides: int64(sides), Mode: mode, Face: int64(face), Src: src, Forced: forced, Tick: m.Ticks, Op: m.CurOp})
		}
		return face
	}
}

func Uninstall() {
	curMeter = nil
	ds.VerifStepHook = nil
	ds.VerifRollHook = nil
	ds.VerifYieldHook = nil
}

func (m *Meter) Reset() {
	m.Ticks, m.Steps, m.Rolls = 0, 0, 0
	m.Cancelled = false
	m.Ledger = m.Ledger[:0]
	m.CurOp = ""
	m.MaxDepth = 0
	m.Huge, m.prevOp = "", ""
}

// ResetGlobals puts every package-level generator into a state chosen by the run.
func ResetGlobals(seed uint64) {
	ds.VerifSetGlobalSeed(seed)
	rand.Seed(seed ^ 0xA5A5A5A5)
	ds.SetParseErrorLanguage(0)
}
