// simcheck: supervisor and worker of the deterministic simulator.
package main

import (
	"encoding/json"
	"flag"
	"fmt"
	"os"
	"strconv"
	"time"

	"verifsim/sim"
)

func main() {
	if len(os.Args) < 3 {
		fmt.Fprintln(os.Stderr, "usage: simcheck run <id> [flags] | worker <id> | list x")
		os.Exit(2)
	}
	switch os.Args[1] {
	case "worker":
		sim.WorkerMain(os.Args[2])
	case "time":
		c := sim.Registry[os.Args[2]]
		n, _ := strconv.Atoi(os.Args[3])
		type tm struct {
			seed uint64
			d    time.Duration
		}
		var worst []tm
		t0 := time.Now()
		for i := 0; i < n; i++ {
			seed := sim.Mix(1, sim.HashStr(c.ID), uint64(i))
			st := time.Now()
			res := &sim.RunResult{Seed: seed}
			c.Exec(sim.MustJSON(c.Gen(seed, "quick")), res)
			d := time.Since(st)
			if d > 20*time.Millisecond {
				worst = append(worst, tm{seed, d})
			}
		}
		fmt.Println("total", time.Since(t0), "per run", time.Since(t0)/time.Duration(n))
		for _, w := range worst {
			fmt.Println(w.seed, w.d)
		}
	case "execfile":
		c := sim.Registry[os.Args[2]]
		b, _ := os.ReadFile(os.Args[3])
		var rf sim.ReplayFile
		if err := json.Unmarshal(b, &rf); err != nil {
			fmt.Println(err)
			os.Exit(2)
		}
		res := &sim.RunResult{}
		c.Exec(rf.Scenario, res)
		for _, v := range res.Violations {
			fmt.Println("SIG", v.Sig)
			fmt.Println(v.Msg)
		}
		fmt.Println(string(rf.Scenario))
	case "show":
		c := sim.Registry[os.Args[2]]
		seed, _ := strconv.ParseUint(os.Args[3], 10, 64)
		sc := sim.MustJSON(c.Gen(seed, "quick"))
		fmt.Println(string(sc))
		res := &sim.RunResult{Seed: seed}
		st := time.Now()
		c.Exec(sc, res)
		res.Scenario = nil
		fmt.Printf("%+v\n%v\n", *res, time.Since(st))
	case "list":
		for _, id := range sim.CheckIDs() {
			c := sim.Registry[id]
			fmt.Printf("%s race=%v\n", id, c.Race)
		}
	case "run":
		id := os.Args[2]
		c := sim.Registry[id]
		if c == nil {
			fmt.Fprintln(os.Stderr, "unknown check", id)
			os.Exit(2)
		}
		fs := flag.NewFlagSet("run", flag.ExitOnError)
		tier := fs.String("tier", "", "quick|thorough")
		seed := fs.Uint64("seed", 0, "VERIF_SEED")
		runs := fs.Int("runs", 0, "override number of runs")
		workers := fs.Int("workers", 16, "worker processes")
		replay := fs.String("replay", "", "replay file")
		verifDir := fs.String("verif", "/verif", "verif directory")
		wall := fs.Duration("wallcap", 0, "stop dealing seeds after this")
		selft := fs.Int("selftest", 24, "seeds re-run in a fresh process to compare digests")
		nomin := fs.Bool("nomin", false, "skip minimisation")
		fs.Parse(os.Args[3:])
		if *tier == "" {
			*tier = os.Getenv("VERIF_TIER")
		}
		if *tier != "thorough" {
			*tier = "quick"
		}
		if *seed == 0 {
			if s, err := strconv.ParseUint(os.Getenv("VERIF_SEED"), 10, 64); err == nil {
				*seed = s
			} else {
				*seed = 1
			}
		}
		if *tier == "thorough" && *selft == 24 {
			*selft = 300
		}
		if *wall == 0 {
			if *tier == "quick" {
				*wall = 150 * time.Second
			} else {
				*wall = 40 * time.Minute
			}
		}
		os.Exit(sim.Supervise(c, sim.Opts{Tier: *tier, Seed: *seed, Workers: *workers, Runs: *runs, WallCap: *wall,
			Replay: *replay, VerifDir: *verifDir, Selftest: *selft, NoMin: *nomin}))
	default:
		fmt.Fprintln(os.Stderr, "unknown command", os.Args[1])
		os.Exit(2)
	}
}
