// simc instruments a Go source file of the dicescript package (a scratch copy, never /repo) for
// the cooperative scheduler:
//   - before every statement of every function body (nested blocks included) it inserts
//     verifYield(<site id>), so every statement boundary is a preemption point;
//   - X.mu.Lock() becomes verifLock(&X.mu): a parked task may hold the mutex, so waiting for
//     it must be a yield loop, not a blocking call.
// Yield points are derived from whatever code is there, so an edited CAS loop or a new unlocked
// access gets its own preemption points automatically. Prints the site table; exits non-zero if
// nothing was instrumented.
package main

import (
	"bytes"
	"fmt"
	"go/ast"
	"go/format"
	"go/parser"
	"go/token"
	"os"
)

const siteBase = 1000

func main() {
	if len(os.Args) != 2 {
		fmt.Fprintln(os.Stderr, "usage: simc <file.go>")
		os.Exit(2)
	}
	path := os.Args[1]
	fset := token.NewFileSet()
	f, err := parser.ParseFile(fset, path, nil, parser.ParseComments)
	if err != nil {
		fmt.Fprintln(os.Stderr, "simc:", err)
		os.Exit(2)
	}
	site := siteBase
	locks := 0
	var table []string

	yieldStmt := func(pos token.Pos) ast.Stmt {
		site++
		p := fset.Position(pos)
		table = append(table, fmt.Sprintf("%d %s:%d", site, p.Filename, p.Line))
		return &ast.ExprStmt{X: &ast.CallExpr{Fun: ast.NewIdent("verifYield"), Args: []ast.Expr{&ast.BasicLit{Kind: token.INT, Value: fmt.Sprint(site)}}}}
	}

	var instrList func(list []ast.Stmt) []ast.Stmt
	var instrStmt func(s ast.Stmt)

	instrList = func(list []ast.Stmt) []ast.Stmt {
		var out []ast.Stmt
		for _, s := range list {
			instrStmt(s)
			out = append(out, yieldStmt(s.Pos()), s)
		}
		return out
	}
	instrStmt = func(s ast.Stmt) {
		switch n := s.(type) {
		case *ast.BlockStmt:
			n.List = instrList(n.List)
		case *ast.IfStmt:
			instrStmt(n.Body)
			if n.Else != nil {
				instrStmt(n.Else)
			}
		case *ast.ForStmt:
			instrStmt(n.Body)
		case *ast.RangeStmt:
			instrStmt(n.Body)
		case *ast.SwitchStmt:
			for _, c := range n.Body.List {
				cc := c.(*ast.CaseClause)
				cc.Body = instrList(cc.Body)
			}
		case *ast.TypeSwitchStmt:
			for _, c := range n.Body.List {
				cc := c.(*ast.CaseClause)
				cc.Body = instrList(cc.Body)
			}
		case *ast.LabeledStmt:
			instrStmt(n.Stmt)
		}
	}

	for _, d := range f.Decls {
		fd, ok := d.(*ast.FuncDecl)
		if !ok || fd.Body == nil {
			continue
		}
		// function literals inside bodies (callbacks) are instrumented too
		ast.Inspect(fd.Body, func(n ast.Node) bool {
			if fl, ok := n.(*ast.FuncLit); ok {
				fl.Body.List = instrList(fl.Body.List)
				return false
			}
			return true
		})
		fd.Body.List = instrList(fd.Body.List)
	}

	// X.mu.Lock() -> verifLock(&X.mu)
	ast.Inspect(f, func(n ast.Node) bool {
		es, ok := n.(*ast.ExprStmt)
		if !ok {
			return true
		}
		call, ok := es.X.(*ast.CallExpr)
		if !ok || len(call.Args) != 0 {
			return true
		}
		sel, ok := call.Fun.(*ast.SelectorExpr)
		if !ok || sel.Sel.Name != "Lock" {
			return true
		}
		inner, ok := sel.X.(*ast.SelectorExpr)
		if !ok || inner.Sel.Name != "mu" {
			return true
		}
		es.X = &ast.CallExpr{Fun: ast.NewIdent("verifLock"), Args: []ast.Expr{&ast.UnaryExpr{Op: token.AND, X: inner}}}
		locks++
		return true
	})

	var buf bytes.Buffer
	if err := format.Node(&buf, fset, f); err != nil {
		fmt.Fprintln(os.Stderr, "simc: format:", err)
		os.Exit(2)
	}
	if site == siteBase {
		fmt.Fprintln(os.Stderr, "simc: no statement instrumented")
		os.Exit(2)
	}
	if err := os.WriteFile(path, buf.Bytes(), 0o644); err != nil {
		fmt.Fprintln(os.Stderr, "simc:", err)
		os.Exit(2)
	}
	fmt.Printf("simc: %d yield sites, %d locks rewritten in %s\n", site-siteBase, locks, path)
	for _, t := range table {
		fmt.Println(t)
	}
}
